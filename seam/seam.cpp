// btcsim seam: owns every place where a btcdeb/tap/btcc process meets its
// environment.  Linked into each tool with
//   -Wl,--wrap=main,--wrap=isatty,--wrap=fileno,--wrap=getenv,--wrap=fopen,
//       --wrap=exit,--wrap=abort,--wrap=__assert_fail
// and in place of GNU readline.  The resulting binary is a "zygote": it reads
// world descriptions on fd 0, forks, runs the tool's real main() in the child
// inside that world, and reports the event log of the run on fd 1.
//
// Wire format (both directions): frames  tag(1) len(4, LE) payload(len).
//
// world (python -> zygote), terminated by '.':
//   'a' argv element            'e' NAME=value            't' "<in><out>" ('0'/'1')
//   'i' "<end_errno> <c1,c2,..>\n" + stdin bytes          (chunks: sizes of successive reads)
//   'f' "<key=value ...>\n" + file content                (see parse_file)
//   'k' "<stream 1|2> <fail_after_bytes> <errno>"
//   'u' user line               'z' user EOF
//   'r' "<seed> <absent_errno> <short_after>"   /dev/urandom
//   'c' "<readline_cap> <fill_stack 0|1> [<probe 0|1>]"
//   'd' "<stdin_delay_ms> <discard_stdout 0|1>"   'j' Ctrl-C at the next prompt
//   'w' "<cols> <rows>" terminal size      'b' "<pos>" press TAB at this cursor position of the next user line
// result (zygote -> python), terminated by '.':
//   events recorded by the child (see emit()) followed by
//   'X' raw bytes the child wrote to its real fd 1/2 (sanitizer reports)
//   'W' "<exited|signaled> <code>"
#include <cerrno>
#include <cstdarg>
#include <cstdint>
#include <cstdio>
#include <cstdlib>
#include <cstring>
#include <exception>
#include <map>
#include <string>
#include <typeinfo>
#include <vector>

#include <fcntl.h>
#include <malloc.h>
#include <signal.h>
#include <poll.h>
#include <sys/ioctl.h>
#include <sys/select.h>
#include <sys/mman.h>
#include <sys/personality.h>
#include <sys/resource.h>
#include <sys/stat.h>
#include <sys/sysmacros.h>
#include <sys/wait.h>
#include <unistd.h>

extern "C" {
int __real_main(int, char**);
FILE* __real_fopen(const char*, const char*);
void __real_exit(int) __attribute__((noreturn));
int __real_isatty(int);
int __real_fileno(FILE*);
char* __real_getenv(const char*);
int __real_ioctl(int, unsigned long, void*);
int __real_poll(struct pollfd*, nfds_t, int);
int __real_select(int, fd_set*, fd_set*, fd_set*, struct timeval*);
int __real_fstat(int, struct stat*);
int __real_fstat64(int, struct stat64*);
// optional white-box probe (seam/probe.cpp, one function per field group), absent for tap and btcc
size_t btcsim_probe_core(char* out, size_t cap) __attribute__((weak));
size_t btcsim_probe_counters(char* out, size_t cap) __attribute__((weak));
size_t btcsim_probe_codehash(char* out, size_t cap) __attribute__((weak));
size_t btcsim_probe_execdata(char* out, size_t cap) __attribute__((weak));
size_t btcsim_probe_phases(char* out, size_t cap) __attribute__((weak));
size_t btcsim_probe_hist(char* out, size_t cap) __attribute__((weak));
size_t btcsim_probe_tce(char* out, size_t cap) __attribute__((weak));
size_t btcsim_probe_next(char* out, size_t cap) __attribute__((weak));
int btcsim_probe_light = 0;
}

#ifdef BTCSIM_ASAN
extern "C" __attribute__((used, visibility("default"))) const char* __asan_default_options() {
    return "exitcode=77:detect_leaks=0:abort_on_error=0:allocator_may_return_null=1:detect_stack_use_after_return=0:handle_abort=0:symbolize=1:malloc_context_size=12";
}
extern "C" __attribute__((used, visibility("default"))) const char* __ubsan_default_options() {
    return "print_stacktrace=1:halt_on_error=1:exitcode=77";
}
#endif

namespace {

// ---------------------------------------------------------------- event log
// A MAP_SHARED region created by the zygote before fork: the child appends
// frames, the parent reads them after the child is gone.  Nothing is lost at a
// crash and there is no pipe to dead-lock on.
struct Shm {
    volatile uint32_t len;
    volatile uint32_t overflow;
    char data[1];
};
const size_t SHM_SIZE = 16u << 20;
Shm* g_shm = nullptr;
bool g_in_child = false;

size_t g_last_off = (size_t)-1;    // offset of the last frame (to coalesce output)
void emit(char tag, const void* p, size_t n) {
    if (!g_shm) return;
    size_t off = g_shm->len;
    if ((tag == 'O' || tag == 'E') && g_last_off != (size_t)-1 && g_shm->data[g_last_off] == tag) {
        // consecutive writes to the same stream form one frame
        if (off + n > SHM_SIZE - sizeof(Shm)) { g_shm->overflow = 1; return; }
        uint32_t old; memcpy(&old, g_shm->data + g_last_off + 1, 4);
        memcpy(g_shm->data + off, p, n);
        uint32_t nw = old + (uint32_t)n;
        memcpy(g_shm->data + g_last_off + 1, &nw, 4);
        g_shm->len = (uint32_t)(off + n);
        return;
    }
    g_last_off = off;
    if (off + 5 + n > SHM_SIZE - sizeof(Shm)) { g_shm->overflow = 1; return; }
    char* d = g_shm->data + off;
    d[0] = tag;
    uint32_t n32 = (uint32_t)n;
    memcpy(d + 1, &n32, 4);
    if (n) memcpy(d + 5, p, n);
    g_shm->len = (uint32_t)(off + 5 + n);
}
void emitf(char tag, const char* fmt, ...) {
    char buf[4096];
    va_list ap;
    va_start(ap, fmt);
    int n = vsnprintf(buf, sizeof buf, fmt, ap);
    va_end(ap);
    if (n < 0) n = 0;
    if ((size_t)n >= sizeof buf) n = sizeof buf - 1;
    emit(tag, buf, n);
}

// ---------------------------------------------------------------- the world
struct FileSpec {
    std::string path;
    bool exists = true;
    std::string content;
    int open_errno = 0;               // errno of an injected open failure
    std::vector<int> open_fail;       // which opens of this path fail (0-based); -1 = all
    long read_fail_after = -1;  int read_errno = 5;
    long write_fail_after = -1; int write_errno = 28;
    int close_errno = 0;
    long read_chunk = 0;              // >0: serve at most this many bytes per read
    int opens = 0;
};
struct World {
    std::vector<std::string> argv;
    std::map<std::string, std::string> env;
    bool tty_in = true, tty_out = true;
    char kind_in = 'p', kind_out = 'p';       // what a non-terminal end is: p pipe, f regular file, c character device, s socket
    std::string stdin_bytes;
    std::vector<long> stdin_chunks;
    int stdin_end_errno = 0;
    long sink_fail_after[3] = {-1, -1, -1};
    int sink_errno[3] = {0, 32, 32};
    std::vector<std::pair<bool, std::string>> user;   // (is_eof, line)
    uint64_t urandom_seed = 1;
    int urandom_absent_errno = 0;
    long urandom_short_after = -1;
    long readline_cap = 10000;
    bool fill_stack = true;
    int probe = 1;              // 0 off, 1 full, 2 light (scripts reported by digest: sessions of thousands of commands)
    int alarm_s = 30;
    int win_cols = 80, win_rows = 24;                 // what TIOCGWINSZ reports for a terminal end
    long stdin_delay_ms = 0;                          // simulated time at which the first byte of stdin becomes readable
    bool discard_stdout = false;                      // long sessions: stdout is counted, not recorded
    std::map<size_t, int> sigints;                    // user line index -> the user presses Ctrl-C at that prompt first
    std::map<size_t, std::vector<long>> tabs;         // user line index -> cursor positions at which TAB is pressed
    std::map<std::string, FileSpec> fs;
};
World W;
long g_now_ms = 0;        // simulated clock (milliseconds since the process started)

std::vector<std::string> split(const std::string& s, char c) {
    std::vector<std::string> r;
    size_t b = 0;
    for (;;) {
        size_t e = s.find(c, b);
        if (e == std::string::npos) { r.push_back(s.substr(b)); break; }
        r.push_back(s.substr(b, e - b));
        b = e + 1;
    }
    return r;
}

void parse_file(const std::string& payload) {
    size_t nl = payload.find('\n');
    std::string head = payload.substr(0, nl);
    FileSpec f;
    f.content = nl == std::string::npos ? "" : payload.substr(nl + 1);
    for (auto& kv : split(head, ' ')) {
        size_t eq = kv.find('=');
        if (eq == std::string::npos) continue;
        std::string k = kv.substr(0, eq), v = kv.substr(eq + 1);
        if (k == "path") f.path = v;
        else if (k == "exists") f.exists = v == "1";
        else if (k == "open_errno") f.open_errno = atoi(v.c_str());
        else if (k == "open_fail") { for (auto& x : split(v, ',')) if (!x.empty()) f.open_fail.push_back(atoi(x.c_str())); }
        else if (k == "read_fail_after") f.read_fail_after = atol(v.c_str());
        else if (k == "read_errno") f.read_errno = atoi(v.c_str());
        else if (k == "write_fail_after") f.write_fail_after = atol(v.c_str());
        else if (k == "write_errno") f.write_errno = atoi(v.c_str());
        else if (k == "close_errno") f.close_errno = atoi(v.c_str());
        else if (k == "read_chunk") f.read_chunk = atol(v.c_str());
    }
    W.fs[f.path] = f;
}

// ---------------------------------------------------------------- streams
struct OutCookie { int which; long written; };   // 1 = stdout, 2 = stderr
ssize_t out_write(void* c, const char* buf, size_t n) {
    OutCookie* oc = (OutCookie*)c;
    long lim = W.sink_fail_after[oc->which];
    size_t take = n;
    bool fail = false;
    if (lim >= 0 && oc->written + (long)n > lim) {
        take = lim > oc->written ? (size_t)(lim - oc->written) : 0;
        fail = true;
    }
    if (take && !(oc->which == 1 && W.discard_stdout)) emit(oc->which == 1 ? 'O' : 'E', buf, take);
    oc->written += take;
    if (fail) {
        emitf('S', "sinkfail %d %d", oc->which, W.sink_errno[oc->which]);
        if (take) return (ssize_t)take;     // short write; the next call fails
        errno = W.sink_errno[oc->which];
        return 0;                           // fopencookie: 0 = error
    }
    return (ssize_t)n;
}
OutCookie g_out = {1, 0}, g_err = {2, 0};

struct InCookie { size_t pos; size_t chunk_i; };
ssize_t in_read(void* c, char* buf, size_t n) {
    InCookie* ic = (InCookie*)c;
    if (g_now_ms < W.stdin_delay_ms) g_now_ms = W.stdin_delay_ms;     // a blocking read waits until the data is there
    size_t left = W.stdin_bytes.size() - ic->pos;
    if (left == 0) {
        if (W.stdin_end_errno) { emitf('S', "stdinerr %d", W.stdin_end_errno); errno = W.stdin_end_errno; return -1; }
        emitf('S', "stdineof");
        return 0;
    }
    size_t take = left < n ? left : n;
    if (ic->chunk_i < W.stdin_chunks.size()) {
        long ch = W.stdin_chunks[ic->chunk_i++];
        if (ch > 0 && (size_t)ch < take) take = (size_t)ch;
    }
    memcpy(buf, W.stdin_bytes.data() + ic->pos, take);
    ic->pos += take;
    emitf('S', "stdinread %zu", take);
    return (ssize_t)take;
}
InCookie g_in = {0, 0};
int in_seek(void* c, off64_t* off, int whence) {
    // a redirected regular file can be repositioned; a pipe, terminal or socket cannot
    InCookie* ic = (InCookie*)c;
    if (W.tty_in || W.kind_in != 'f') { errno = ESPIPE; return -1; }
    off64_t base = whence == SEEK_SET ? 0 : whence == SEEK_CUR ? (off64_t)ic->pos : (off64_t)W.stdin_bytes.size();
    off64_t np = base + *off;
    if (np < 0) { errno = EINVAL; return -1; }
    if ((size_t)np > W.stdin_bytes.size()) np = (off64_t)W.stdin_bytes.size();
    ic->pos = (size_t)np;
    *off = np;
    emitf('S', "stdinseek %lld", (long long)np);
    return 0;
}

struct FileCookie {
    FileSpec* f;
    bool writing;
    size_t rpos;
    long nread, nwritten;
    std::string wbuf;
    bool is_urandom;
    uint64_t rng;
};
uint64_t splitmix(uint64_t& s) {
    uint64_t z = (s += 0x9E3779B97F4A7C15ull);
    z = (z ^ (z >> 30)) * 0xBF58476D1CE4E5B9ull;
    z = (z ^ (z >> 27)) * 0x94D049BB133111EBull;
    return z ^ (z >> 31);
}
ssize_t file_read(void* c, char* buf, size_t n) {
    FileCookie* fc = (FileCookie*)c;
    if (fc->is_urandom) {
        if (W.urandom_short_after >= 0 && fc->nread + (long)n > W.urandom_short_after) {
            long can = W.urandom_short_after - fc->nread;
            if (can <= 0) { emitf('S', "urandom eof"); return 0; }
            n = (size_t)can;
        }
        for (size_t i = 0; i < n; i++) buf[i] = (char)(splitmix(fc->rng) & 0xff);
        fc->nread += n;
        emitf('S', "urandom read %zu", n);
        return (ssize_t)n;
    }
    FileSpec* f = fc->f;
    size_t left = f->content.size() - fc->rpos;
    if (f->read_fail_after >= 0 && fc->nread >= f->read_fail_after) {
        emitf('S', "readfail %s %d", f->path.c_str(), f->read_errno);
        errno = f->read_errno;
        return -1;
    }
    size_t take = left < n ? left : n;
    if (f->read_chunk > 0 && (size_t)f->read_chunk < take) take = (size_t)f->read_chunk;
    if (f->read_fail_after >= 0 && fc->nread + (long)take > f->read_fail_after) take = (size_t)(f->read_fail_after - fc->nread);
    memcpy(buf, f->content.data() + fc->rpos, take);
    fc->rpos += take;
    fc->nread += take;
    return (ssize_t)take;
}
ssize_t file_write(void* c, const char* buf, size_t n) {
    FileCookie* fc = (FileCookie*)c;
    FileSpec* f = fc->f;
    if (!f) return (ssize_t)n;
    size_t take = n;
    bool fail = false;
    if (f->write_fail_after >= 0 && fc->nwritten + (long)n > f->write_fail_after) {
        take = f->write_fail_after > fc->nwritten ? (size_t)(f->write_fail_after - fc->nwritten) : 0;
        fail = true;
    }
    fc->wbuf.append(buf, take);
    fc->nwritten += take;
    if (fail) {
        emitf('S', "writefail %s %d", f->path.c_str(), f->write_errno);
        if (take) return (ssize_t)take;
        errno = f->write_errno;
        return 0;
    }
    return (ssize_t)n;
}
int file_close(void* c) {
    FileCookie* fc = (FileCookie*)c;
    int rc = 0;
    if (fc->f && fc->writing) {
        fc->f->content += fc->wbuf;     // visible to later opens in the same run
        fc->f->exists = true;
        std::string ev = "wrote " + fc->f->path + "\n" + fc->wbuf;
        emit('F', ev.data(), ev.size());
        if (fc->f->close_errno) { emitf('S', "closefail %s %d", fc->f->path.c_str(), fc->f->close_errno); errno = fc->f->close_errno; rc = -1; }
    }
    delete fc;
    return rc;
}

// ---------------------------------------------------------------- the user
size_t g_user_i = 0;
long g_readline_calls = 0;

void do_probe() {
    if (!btcsim_probe_core || !W.probe) return;
    static char buf[1 << 20];
    typedef size_t (*probe_fn)(char*, size_t);
    probe_fn fns[] = {btcsim_probe_core, btcsim_probe_counters, btcsim_probe_codehash, btcsim_probe_execdata,
                      btcsim_probe_phases, btcsim_probe_hist, btcsim_probe_tce, btcsim_probe_next};
    size_t n = 0;
    for (probe_fn f : fns) if (f && n < sizeof buf) n += f(buf + n, sizeof buf - n);
    emit('P', buf, n);
}

void terminate_handler() {
    const char* what = "";
    std::string tn = "unknown";
    if (std::exception_ptr ep = std::current_exception()) {
        try { std::rethrow_exception(ep); }
        catch (const std::exception& e) { what = e.what(); tn = typeid(e).name(); }
        catch (...) { tn = "non-std"; }
    }
    fflush(stdout); fflush(stderr);
    emitf('T', "terminate %s: %s", tn.c_str(), what);
    _exit(78);
}

void install_world_streams() {
    cookie_io_functions_t outf = {nullptr, out_write, nullptr, nullptr};
    cookie_io_functions_t inf = {in_read, nullptr, in_seek, nullptr};
    FILE* so = fopencookie(&g_out, "w", outf);
    FILE* se = fopencookie(&g_err, "w", outf);
    FILE* si = fopencookie(&g_in, "r", inf);
    // a terminal is line buffered, a pipe or file fully buffered, stderr never
    setvbuf(so, nullptr, W.tty_out ? _IOLBF : _IOFBF, 4096);
    setvbuf(se, nullptr, _IONBF, 0);
    stdout = so; stderr = se; stdin = si;
}

volatile char g_sink_byte;
__attribute__((noinline)) void fill_stack_below() {
    // make "indeterminate" stack memory deterministic: everything main() and
    // its callees will use as fresh stack is 0xAA, never a stale NUL
    volatile char pad[384 * 1024];
    for (size_t i = 0; i < sizeof pad; i++) pad[i] = (char)0xAA;
    g_sink_byte = pad[12345];
}

void read_exact(int fd, void* p, size_t n) {
    char* c = (char*)p;
    while (n) {
        ssize_t r = read(fd, c, n);
        if (r <= 0) _exit(0);      // controller went away
        c += r; n -= (size_t)r;
    }
}
void write_all(int fd, const void* p, size_t n) {
    const char* c = (const char*)p;
    while (n) {
        ssize_t r = write(fd, c, n);
        if (r < 0) { if (errno == EINTR) continue; _exit(0); }
        c += r; n -= (size_t)r;
    }
}
void out_frame(int fd, char tag, const void* p, size_t n) {
    char h[5]; h[0] = tag; uint32_t n32 = (uint32_t)n; memcpy(h + 1, &n32, 4);
    write_all(fd, h, 5);
    if (n) write_all(fd, p, n);
}

// The zygote keeps the world description as raw bytes in a region mapped once; it is parsed in the child, after
// the fork.  The parent's heap therefore never changes between runs and every child starts from the very same
// heap: a run is a function of its world alone, even when the tool reads freed or uninitialised heap memory.
const size_t WORLDBUF_SIZE = 64u << 20;
char* g_worldbuf = nullptr;
size_t g_worldlen = 0;

bool read_world_raw(int fd) {
    g_worldlen = 0;
    for (;;) {
        char h[5];
        read_exact(fd, h, 5);
        uint32_t n; memcpy(&n, h + 1, 4);
        if (g_worldlen + 5 + n > WORLDBUF_SIZE) _exit(4);
        memcpy(g_worldbuf + g_worldlen, h, 5);
        if (n) read_exact(fd, g_worldbuf + g_worldlen + 5, n);
        g_worldlen += 5 + n;
        if (h[0] == '.') return true;
    }
}

bool parse_world() {
    W = World();
    size_t pos = 0;
    for (;;) {
        if (pos + 5 > g_worldlen) return true;
        char h[5];
        memcpy(h, g_worldbuf + pos, 5);
        uint32_t n; memcpy(&n, h + 1, 4);
        std::string p(g_worldbuf + pos + 5, n);
        pos += 5 + n;
        switch (h[0]) {
        case '.': return true;
        case 'a': W.argv.push_back(p); break;
        case 'e': { size_t eq = p.find('='); W.env[p.substr(0, eq)] = eq == std::string::npos ? "" : p.substr(eq + 1); break; }
        case 't': W.tty_in = p.size() > 0 && p[0] == '1'; W.tty_out = p.size() > 1 && p[1] == '1';
                  if (p.size() > 2) W.kind_in = p[2];
                  if (p.size() > 3) W.kind_out = p[3];
                  break;
        case 'i': {
            size_t nl = p.find('\n');
            std::string head = p.substr(0, nl);
            W.stdin_bytes = nl == std::string::npos ? "" : p.substr(nl + 1);
            size_t sp = head.find(' ');
            W.stdin_end_errno = atoi(head.c_str());
            if (sp != std::string::npos) for (auto& x : split(head.substr(sp + 1), ',')) if (!x.empty()) W.stdin_chunks.push_back(atol(x.c_str()));
            break;
        }
        case 'f': parse_file(p); break;
        case 'k': { int w; long a; int e; if (sscanf(p.c_str(), "%d %ld %d", &w, &a, &e) == 3 && (w == 1 || w == 2)) { W.sink_fail_after[w] = a; W.sink_errno[w] = e; } break; }
        case 'u': W.user.push_back({false, p}); break;
        case 'z': W.user.push_back({true, ""}); break;
        case 'r': { unsigned long long s; int e; long sh; if (sscanf(p.c_str(), "%llu %d %ld", &s, &e, &sh) == 3) { W.urandom_seed = s; W.urandom_absent_errno = e; W.urandom_short_after = sh; } break; }
        case 'd': { long ms; int disc; if (sscanf(p.c_str(), "%ld %d", &ms, &disc) == 2) { W.stdin_delay_ms = ms; W.discard_stdout = disc != 0; } break; }
        case 'j': W.sigints[W.user.size()] = 1; break;
        case 'w': { int c, r; if (sscanf(p.c_str(), "%d %d", &c, &r) == 2) { W.win_cols = c; W.win_rows = r; } break; }
        case 'b': { long pos; if (sscanf(p.c_str(), "%ld", &pos) == 1) W.tabs[W.user.size()].push_back(pos); break; }
        case 'c': { long cap; int fs; int pr = 1; int al = 30; if (sscanf(p.c_str(), "%ld %d %d %d", &cap, &fs, &pr, &al) >= 2) { W.readline_cap = cap; W.fill_stack = fs != 0; W.probe = pr; W.alarm_s = al > 0 ? al : 30; } break; }
        default: break;
        }
    }
}

__attribute__((constructor(101))) void register_final() {
    atexit([] {
        if (!g_in_child) return;
        fflush(stdout); fflush(stderr);
        emitf('T', "exited");       // every destructor and atexit handler ran
    });
}

int child_run() {
    g_in_child = true;
    parse_world();
    std::set_terminate(terminate_handler);
    install_world_streams();
    std::vector<char*> av;
    for (auto& a : W.argv) av.push_back(strdup(a.c_str()));
    av.push_back(nullptr);
    optind = 1;
    alarm(W.alarm_s);
    btcsim_probe_light = W.probe == 2;
#ifndef BTCSIM_ASAN
    mallopt(M_PERTURB, 0xAA);
#endif
    if (W.fill_stack) fill_stack_below();
    int rc = __real_main((int)W.argv.size(), av.data());
    fflush(stdout); fflush(stderr);
    emitf('T', "return %d", rc);
    __real_exit(rc);
}

} // namespace

// ===================================================================== seams
template <typename ST> static int sim_fstat(int fd, ST* st) {
    // fd 0..2 are the simulated ends: a terminal is a character device, anything else what the world says
    bool tty = fd == 0 ? W.tty_in : fd == 1 ? W.tty_out : true;
    char kind = tty ? 'c' : fd == 0 ? W.kind_in : W.kind_out;
    memset(st, 0, sizeof *st);
    st->st_mode = (kind == 'f' ? S_IFREG | 0644 : kind == 'c' ? S_IFCHR | 0620 : kind == 's' ? S_IFSOCK | 0777 : S_IFIFO | 0600);
    st->st_nlink = 1;
    st->st_blksize = kind == 'f' ? 4096 : 1024;
    st->st_ino = 1000 + fd;
    if (kind == 'f' && fd == 0) { st->st_size = (off_t)W.stdin_bytes.size(); st->st_blocks = (st->st_size + 511) / 512; }
    if (kind == 'c') st->st_rdev = tty ? makedev(136, fd) : makedev(1, 3);
    emitf('S', "fstat %d %c", fd, kind);
    return 0;
}
extern "C" {

// --- the TAB key: GNU readline would call the application's completion hook with the word under the cursor
extern "C" { extern char* rl_line_buffer; extern int rl_point; }
typedef char** rl_completion_func_t(const char*, int, int);
extern "C" rl_completion_func_t* rl_attempted_completion_function;
static void press_tab(const std::string& line, long pos) {
    if (!rl_attempted_completion_function) return;
    if (pos < 0) pos = 0;
    if ((size_t)pos > line.size()) pos = (long)line.size();
    std::string upto = line.substr(0, (size_t)pos);
    size_t start = upto.find_last_of(" \t");
    start = start == std::string::npos ? 0 : start + 1;
    std::string word = upto.substr(start);
    char* saved = rl_line_buffer;
    int saved_point = rl_point;
    rl_line_buffer = strdup(line.c_str());
    rl_point = (int)pos;
    emitf('S', "tab %ld", pos);
    char** m = rl_attempted_completion_function(word.c_str(), (int)start, (int)pos);
    if (m) {
        std::string all;
        for (size_t i = 0; m[i]; i++) { all += m[i]; all += ' '; free(m[i]); }
        free(m);
        emit('C', all.data(), all.size());
    }
    free(rl_line_buffer);
    rl_line_buffer = saved;
    rl_point = saved_point;
}

char* readline(const char* prompt) {
    fflush(stdout); fflush(stderr);
    emit('R', prompt ? prompt : "", prompt ? strlen(prompt) : 0);
    do_probe();
    if (++g_readline_calls > W.readline_cap) {
        emitf('T', "cap readline");
        _exit(79);
    }
    {
        auto si = W.sigints.find(g_user_i);
        if (si != W.sigints.end() && si->second) {
            // the user presses Ctrl-C at this prompt: the terminal sends SIGINT to the foreground process
            si->second = 0;
            fflush(stdout); fflush(stderr);
            emitf('S', "sigint");
            raise(SIGINT);
            emitf('S', "sigint-returned");      // a handler was installed and returned
        }
    }
    if (g_user_i >= W.user.size() || W.user[g_user_i].first) {
        if (g_user_i < W.user.size()) g_user_i++;
        emit('Z', "", 0);
        return nullptr;
    }
    size_t idx = g_user_i;
    const std::string& l = W.user[g_user_i++].second;
    auto tb = W.tabs.find(idx);
    if (tb != W.tabs.end()) for (long pos : tb->second) press_tab(l, pos);
    emit('L', l.data(), l.size());
    return strdup(l.c_str());
}
// history list of GNU readline: kept only as a counter, its content is not
// observable through any property
void add_history(const char* s) { emit('H', s ? s : "", s ? strlen(s) : 0); }
const char* rl_readline_name = nullptr;
rl_completion_func_t* rl_attempted_completion_function = nullptr;
char* rl_line_buffer = nullptr;
int rl_point = 0;
typedef char* rl_compentry_func_t(const char*, int);
char** rl_completion_matches(const char* text, rl_compentry_func_t* gen) {
    // as GNU readline does: ask the generator until it returns NULL; slot 0 holds the common prefix
    std::vector<char*> found;
    for (int state = 0; ; state = 1) {
        char* m = gen(text, state);
        if (!m) break;
        found.push_back(m);
        if (found.size() > 10000) break;
    }
    if (found.empty()) return nullptr;
    char** arr = (char**)malloc(sizeof(char*) * (found.size() + 2));
    size_t common = strlen(found[0]);
    for (size_t i = 1; i < found.size(); i++) {
        size_t k = 0;
        while (k < common && found[i][k] && found[i][k] == found[0][k]) k++;
        common = k;
    }
    arr[0] = strndup(found[0], common);
    for (size_t i = 0; i < found.size(); i++) arr[i + 1] = found[i];
    arr[found.size() + 1] = nullptr;
    return arr;
}

int __wrap_isatty(int fd) {
    int r = fd == 0 ? W.tty_in : fd == 1 ? W.tty_out : fd == 2 ? 1 : 0;
    if (!g_in_child) return __real_isatty(fd);
    emitf('S', "isatty %d %d", fd, r);
    if (!r) errno = ENOTTY;
    return r;
}
int __wrap_fileno(FILE* f) {
    if (!g_in_child) return __real_fileno(f);
    if (f == stdin) return 0;
    if (f == stdout) return 1;
    if (f == stderr) return 2;
    return __real_fileno(f);
}
char* __wrap_getenv(const char* name) {
    if (!g_in_child) return __real_getenv(name);
    auto it = W.env.find(name);
    emitf('S', "getenv %s %d", name, it != W.env.end());
    return it == W.env.end() ? nullptr : (char*)it->second.c_str();
}
FILE* __wrap_fopen(const char* path, const char* mode) {
    if (!g_in_child) return __real_fopen(path, mode);
    bool writing = strchr(mode, 'w') || strchr(mode, 'a') || strchr(mode, '+');
    cookie_io_functions_t fn = {file_read, file_write, nullptr, file_close};
    if (!strcmp(path, "/dev/urandom")) {
        if (W.urandom_absent_errno) { emitf('S', "fopen %s %s fail %d", path, mode, W.urandom_absent_errno); errno = W.urandom_absent_errno; return nullptr; }
        emitf('S', "fopen %s %s ok", path, mode);
        FileCookie* fc = new FileCookie{nullptr, false, 0, 0, 0, "", true, W.urandom_seed};
        FILE* fp = fopencookie(fc, "r", fn);
        setvbuf(fp, nullptr, _IONBF, 0);
        return fp;
    }
    auto it = W.fs.find(path);
    if (it == W.fs.end()) {
        if (!writing) { emitf('S', "fopen %s %s fail %d", path, mode, ENOENT); errno = ENOENT; return nullptr; }
        FileSpec f; f.path = path; f.exists = false;
        it = W.fs.emplace(path, f).first;
    }
    FileSpec& f = it->second;
    int idx = f.opens++;
    bool inject = false;
    for (int x : f.open_fail) if (x == idx || x == -1) inject = true;
    if (inject) { emitf('S', "fopen %s %s fail %d", path, mode, f.open_errno); errno = f.open_errno; return nullptr; }
    if (!writing && !f.exists) { emitf('S', "fopen %s %s fail %d", path, mode, ENOENT); errno = ENOENT; return nullptr; }
    if (strchr(mode, 'w')) f.content.clear();
    emitf('S', "fopen %s %s ok", path, mode);
    FileCookie* fc = new FileCookie{&f, writing, 0, 0, 0, "", false, 0};
    return fopencookie(fc, writing ? "w" : "r", fn);
}
// --- simulated time: the only thing that passes it is waiting for input.  A wait on stdin with a timeout either
// reaches the moment the data arrives (the clock jumps there) or times out (the clock advances by the timeout).
static int stdin_wait(long timeout_ms) {
    long left = W.stdin_delay_ms - g_now_ms;
    if (left <= 0) { emitf('S', "wait stdin ready now=%ld", g_now_ms); return 1; }
    if (timeout_ms < 0 || timeout_ms >= left) { g_now_ms = W.stdin_delay_ms; emitf('S', "wait stdin ready now=%ld", g_now_ms); return 1; }
    g_now_ms += timeout_ms;
    emitf('S', "wait stdin timeout now=%ld", g_now_ms);
    return 0;
}
int __wrap_poll(struct pollfd* fds, nfds_t n, int timeout) {
    if (!g_in_child) return __real_poll(fds, n, timeout);
    int ready = 0;
    bool waited = false;
    for (nfds_t i = 0; i < n; i++) {
        fds[i].revents = 0;
        if (fds[i].fd == 0 && (fds[i].events & POLLIN)) {
            if (!waited) { waited = true; if (stdin_wait(timeout)) { fds[i].revents = POLLIN; ready++; } }
        } else if (fds[i].fd == 1 || fds[i].fd == 2) {
            if (fds[i].events & POLLOUT) { fds[i].revents = POLLOUT; ready++; }
        }
    }
    if (!waited && ready == 0 && timeout > 0) g_now_ms += timeout;
    return ready;
}
int __wrap_select(int nfds, fd_set* r, fd_set* w, fd_set* e, struct timeval* tv) {
    if (!g_in_child) return __real_select(nfds, r, w, e, tv);
    long timeout = tv ? tv->tv_sec * 1000 + tv->tv_usec / 1000 : -1;
    int ready = 0;
    bool want0 = r && nfds > 0 && FD_ISSET(0, r);
    if (r) { fd_set keep; FD_ZERO(&keep); if (want0 && stdin_wait(timeout)) { FD_SET(0, &keep); ready++; } *r = keep; }
    if (w) { fd_set keep; FD_ZERO(&keep); for (int fd = 1; fd <= 2 && fd < nfds; fd++) if (FD_ISSET(fd, w)) { FD_SET(fd, &keep); ready++; } *w = keep; }
    if (e) FD_ZERO(e);
    if (!want0 && ready == 0 && timeout > 0) g_now_ms += timeout;
    return ready;
}
int __wrap_fstat(int fd, struct stat* st) {
    if (!g_in_child || fd < 0 || fd > 2) return __real_fstat(fd, st);
    return sim_fstat(fd, st);
}
int __wrap_fstat64(int fd, struct stat64* st) {
    if (!g_in_child || fd < 0 || fd > 2) return __real_fstat64(fd, st);
    return sim_fstat(fd, st);
}
int __wrap_ioctl(int fd, unsigned long req, void* arg) {
    if (!g_in_child) return __real_ioctl(fd, req, arg);
    if (req == TIOCGWINSZ && fd >= 0 && fd <= 2) {
        int tty = fd == 0 ? W.tty_in : fd == 1 ? W.tty_out : 1;
        emitf('S', "ioctl winsize %d %d", fd, tty ? W.win_cols : -1);
        if (!tty) { errno = ENOTTY; return -1; }
        struct winsize* ws = (struct winsize*)arg;
        memset(ws, 0, sizeof *ws);
        ws->ws_col = (unsigned short)W.win_cols;
        ws->ws_row = (unsigned short)W.win_rows;
        return 0;
    }
    return __real_ioctl(fd, req, arg);
}
void __wrap_exit(int code) {
    if (g_in_child) {
        fflush(stdout); fflush(stderr);
        emitf('T', "exit %d", code);
    }
    __real_exit(code);
}
void __wrap_abort(void) {
    if (g_in_child) {
        fflush(stdout); fflush(stderr);
        emitf('T', "abort");
        _exit(80);
    }
    _exit(80);
}
void __wrap___assert_fail(const char* expr, const char* file, unsigned line, const char* fn) {
    fflush(stdout); fflush(stderr);
    emitf('T', "assert %s:%u: %s: %s", file, line, fn ? fn : "", expr);
    _exit(81);
}

// --------------------------------------------------------------------- zygote
int __wrap_main(int argc, char** argv) {
    // one address-space layout for the zygote and all its children
    if (!__real_getenv("BTCSIM_NOASLR")) {
        setenv("BTCSIM_NOASLR", "1", 1);
        int pers = personality(0xffffffff);
        if (pers != -1 && !(pers & ADDR_NO_RANDOMIZE) && personality(pers | ADDR_NO_RANDOMIZE) != -1) {
            execv("/proc/self/exe", argv);
        }
    }
    signal(SIGPIPE, SIG_IGN);
    int ctl_in = dup(0), ctl_out = dup(1);
    int devnull = open("/dev/null", O_RDWR);
    dup2(devnull, 0); dup2(devnull, 1);
    g_shm = (Shm*)mmap(nullptr, SHM_SIZE, PROT_READ | PROT_WRITE, MAP_SHARED | MAP_ANONYMOUS, -1, 0);
    if (g_shm == MAP_FAILED) { perror("mmap"); return 3; }
    int rawfd = memfd_create("btcsim-raw", 0);
    if (rawfd < 0) { perror("memfd_create"); return 3; }
    out_frame(ctl_out, 'Y', "ready", 5);
    g_worldbuf = (char*)mmap(nullptr, WORLDBUF_SIZE, PROT_READ | PROT_WRITE, MAP_PRIVATE | MAP_ANONYMOUS, -1, 0);
    if (g_worldbuf == MAP_FAILED) { perror("mmap"); return 3; }
    for (;;) {
        read_world_raw(ctl_in);
        g_shm->len = 0; g_shm->overflow = 0; g_last_off = (size_t)-1;
        if (ftruncate(rawfd, 0) != 0) {}
        lseek(rawfd, 0, SEEK_SET);
        pid_t pid = fork();
        if (pid < 0) { char fb[32]; fb[0] = 'B'; uint32_t t = 15; memcpy(fb + 1, &t, 4); fb[5] = 'W'; uint32_t l = 10; memcpy(fb + 6, &l, 4); memcpy(fb + 10, "forkfail 0", 10); write_all(ctl_out, fb, 20); continue; }
        if (pid == 0) {
            close(ctl_in); close(ctl_out);
            dup2(rawfd, 1); dup2(rawfd, 2);
            struct rlimit rl = {0, 0};
            setrlimit(RLIMIT_CORE, &rl);
            child_run();
            _exit(99);
        }
        int st = 0;
        while (waitpid(pid, &st, 0) < 0 && errno == EINTR) {}
        // no heap use here (see read_world_raw): the tail is assembled in a static buffer
        static char tail[1 << 20];
        size_t tn = 0;
        auto add = [&tn](char tag, const void* p, size_t n) {
            if (tn + 5 + n > sizeof tail) n = sizeof tail - tn - 5;
            tail[tn] = tag; uint32_t n32 = (uint32_t)n; memcpy(tail + tn + 1, &n32, 4);
            memcpy(tail + tn + 5, p, n);
            tn += 5 + n;
        };
        if (g_shm->overflow) add('V', "overflow", 8);
        off_t rawlen = lseek(rawfd, 0, SEEK_END);
        if (rawlen > 0) {
            static char raw[512 << 10];
            size_t want = (size_t)rawlen < sizeof raw ? (size_t)rawlen : sizeof raw;
            ssize_t got = pread(rawfd, raw, want, 0);
            if (got > 0) add('X', raw, (size_t)got);
        }
        char wb[64];
        int wn = WIFEXITED(st) ? snprintf(wb, sizeof wb, "exited %d", WEXITSTATUS(st))
                               : snprintf(wb, sizeof wb, "signaled %d", WIFSIGNALED(st) ? WTERMSIG(st) : -1);
        add('W', wb, (size_t)wn);
        // one batch: 'B' <total length> then all frames
        char h[5]; h[0] = 'B'; uint32_t tot = g_shm->len + (uint32_t)tn; memcpy(h + 1, &tot, 4);
        write_all(ctl_out, h, 5);
        write_all(ctl_out, (const void*)g_shm->data, g_shm->len);
        write_all(ctl_out, tail, tn);
    }
}

} // extern "C"
