// White-box state probe, compiled against the tree's own headers.  It is
// optional: if it stops compiling (a field was renamed), ensure_build links the
// btcdeb zygote without it and the checks fall back to the black-box probe.
//
// Output: lines "key=value\n".  Nothing here may depend on addresses.
#include <cstdio>
#include <cstring>
#include <string>

#include <functions.h>

extern "C" int btcsim_probe_light;      // seam.cpp: report scripts by digest (sessions of thousands of commands)

namespace {
struct Buf {
    char* p; size_t cap; size_t n;
    void add(const std::string& s) { if (n + s.size() < cap) { memcpy(p + n, s.data(), s.size()); n += s.size(); } }
    // a value is never dropped: one that is too long for a line of the report is replaced by its length and digest
    void kvraw(const char* k, const std::string& v) { if (btcsim_probe_light) { kv(k, v); return; } add(k); add("="); add(v); add("\n"); }
    void kv(const char* k, const std::string& v) {
        if (v.size() > 2048) {
            unsigned long long h = 1469598103934665603ULL;
            for (unsigned char c : v) { h ^= c; h *= 1099511628211ULL; }
            char buf[80];
            snprintf(buf, sizeof buf, "#long:%zu:%016llx", v.size(), h);
            add(k); add("="); add(buf); add("\n");
            return;
        }
        add(k); add("="); add(v); add("\n");
    }
    void kvi(const char* k, long long v) { kv(k, std::to_string(v)); }
};
std::string hex(const unsigned char* b, size_t n) {
    static const char* d = "0123456789abcdef";
    std::string s; s.reserve(n * 2);
    for (size_t i = 0; i < n; i++) { s.push_back(d[b[i] >> 4]); s.push_back(d[b[i] & 15]); }
    return s;
}
template <typename V> std::string hexv(const V& v) { return hex((const unsigned char*)v.data(), v.size()); }
std::string stackstr(const std::vector<valtype>& st) {
    // items up to 64 bytes in full; longer ones as "#<length>:<64 bit FNV-1a digest>" so that a session with
    // 100 KiB items still has an exact, small state description
    std::string s;
    for (auto& it : st) {
        if (it.size() <= 64) s += hexv(it);
        else {
            unsigned long long h = 1469598103934665603ULL;
            for (unsigned char c : it) { h ^= c; h *= 1099511628211ULL; }
            char buf[64];
            snprintf(buf, sizeof buf, "#%zu:%016llx", it.size(), h);
            s += buf;
        }
        s += ",";
    }
    return s;
}
long long off(const CScript& s, CScript::const_iterator it) {
    // the iterator may be stale (that is one of the things being looked for):
    // compare raw addresses, never dereference
    const unsigned char* b = &*s.begin();
    const unsigned char* e = b + s.size();
    const unsigned char* p = &*it;
    if (s.size() == 0) return (p == b) ? 0 : -1;
    if (p < b || p > e) return -1;
    return (long long)(p - b);
}
}

// The probe is compiled once per field group (-DPROBE_GROUP=<name>); a group that no longer compiles because
// a field was renamed or removed is left out on its own, the others keep working (see btcsim/build.py).
#define PROBE_FN2(g) btcsim_probe_##g
#define PROBE_FN(g) PROBE_FN2(g)

extern "C" size_t PROBE_FN(PROBE_GROUP)(char* out, size_t cap) {
    Buf b{out, cap, 0};
#if defined(PROBE_core)
    if (!env) { b.kv("env", "none"); return b.n; }
    b.kv("env", "ok");
    b.kvi("done", env->done);
    b.kvi("curr_op_seq", env->curr_op_seq);
    b.kvi("count", count);
    b.kv("stack", stackstr(env->stack));
    b.kv("altstack", stackstr(env->altstack));
    {
        std::string v;
        for (size_t i = 0; i < env->vfExec.size(); i++) v += env->vfExec.at(i) ? '1' : '0';
        b.kv("vfexec", v);
    }
    b.kvraw("script", hexv(env->script));      // the checks decode it: always in full
    b.kvi("pc", off(env->script, env->pc));
    b.kvi("pend", off(env->script, env->pend));
#elif defined(PROBE_counters)
    if (!env) return 0;
    b.kvi("nOpCount", env->nOpCount);
    b.kvi("opcode_pos", env->opcode_pos);
#elif defined(PROBE_codehash)
    if (!env) return 0;
    b.kvi("pbegincodehash", off(env->script, env->pbegincodehash));
#elif defined(PROBE_execdata)
    if (!env) return 0;
    b.kvi("codesep_pos", env->execdata.m_codeseparator_pos);
    b.kvi("weight_left_init", env->execdata.m_validation_weight_left_init);
    b.kvi("weight_left", env->execdata.m_validation_weight_left_init ? env->execdata.m_validation_weight_left : 0);
    b.kvi("tapleaf_init", env->execdata.m_tapleaf_hash_init);
    b.kv("tapleaf", env->execdata.m_tapleaf_hash_init ? env->execdata.m_tapleaf_hash.ToString() : "");
#elif defined(PROBE_phases)
    if (!env) return 0;
    b.kvi("is_p2sh", env->is_p2sh);
    b.kv("p2shstack", stackstr(env->p2shstack));
    b.kvraw("successor", hexv(env->successor_script));
    b.kvi("sigversion", (int)env->sigversion);
    b.kvi("flags", env->flags);
    b.kvi("serror", env->serror ? (int)*env->serror : -1);
#elif defined(PROBE_hist)
    if (!env) return 0;
    b.kvi("hist_stack", env->stack_history.size());
    b.kvi("hist_alt", env->altstack_history.size());
    b.kvi("hist_pc", env->pc_history.size());
    b.kvi("hist_nop", env->nOpCount_history.size());
#elif defined(PROBE_tce)
    if (!env) return 0;
    if (env->tce) {
        b.kvi("tce_i", env->tce->m_i);
        b.kvi("tce_len", env->tce->m_path_len);
        b.kv("tce_k", env->tce->m_k.ToString());
    } else b.kv("tce_i", "none");
#elif defined(PROBE_next)
    if (!env) return 0;
    // what executes next, read from the bytes at pc
    long long pco = off(env->script, env->pc);
    if (env->done) b.kv("next", "nothing");      // the session is over, whatever flags are still set
    else if (env->tce) b.kv("next", "commit");
    else if (pco >= 0 && (size_t)pco < env->script.size() && off(env->script, env->pend) == (long long)env->script.size()) {
        CScript::const_iterator it = env->script.begin() + pco;
        opcodetype opc; valtype push;
        if (env->script.GetOp(it, opc, push)) {
            b.kv("next", "op");
            b.kvi("next_opcode", (int)opc);
            b.kv("next_push", hexv(push));
            b.kvi("next_len", (it - env->script.begin()) - pco);
        } else b.kv("next", "undecodable");
    } else if (pco == (long long)env->script.size()) {
        if (env->is_p2sh) b.kv("next", "p2sh-switch");
        else if (env->successor_script.size()) b.kv("next", "spk-switch");
        else if (!env->done) b.kv("next", "finish");
        else b.kv("next", "nothing");
    } else b.kv("next", "stale");
    // (env->opcode / vchPushValue are not reported: they are indeterminate until the first operation has run)
#else
#error "PROBE_GROUP / PROBE_<group> not set"
#endif
    return b.n;
}
