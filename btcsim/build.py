"""Content-hash build of /repo's current working tree into /verif/build/<flavour>/.

Every object is keyed by sha256(preprocessed translation unit + flags), so an
unchanged tree costs one preprocessing pass and any edit under /repo is picked up
whatever the mtimes say.  Source lists are read from /repo/Makefile.am.

Exit codes of the command line: 0 built, 2 cannot build (never a violation).
"""
import fcntl
import hashlib
import os
import re
import subprocess
import sys
from concurrent.futures import ThreadPoolExecutor

REPO = os.environ.get("BTCSIM_REPO", "/repo")
VERIF = os.path.dirname(os.path.dirname(os.path.abspath(__file__)))
BUILD = os.environ.get("BTCSIM_BUILD", os.path.join(VERIF, "build"))

PROBE_GROUPS = ["core", "counters", "codehash", "execdata", "phases", "hist", "tce", "next"]
WRAPS = ["main", "isatty", "fileno", "getenv", "fopen", "exit", "abort", "__assert_fail", "ioctl", "poll", "select", "fstat", "fstat64"]

FLAVOURS = {
    # UBSan subset = what C15 names (traps, out-of-bounds, null); no
    # signed-overflow / shift / alignment pedantry the property does not mention.
    "asan": ["-O1", "-g", "-fno-omit-frame-pointer", "-fsanitize=address",
             "-fsanitize=bounds,null,return,unreachable,vla-bound,integer-divide-by-zero,pointer-overflow",
             "-fno-sanitize-recover=all", "-DBTCSIM_ASAN"],
    "plain": ["-O2", "-g"],
}


class BuildError(Exception):
    pass


def _makefile_sources():
    text = open(os.path.join(REPO, "Makefile.am")).read()
    text = text.replace("\\\n", " ")
    out = {}
    for m in re.finditer(r"^(\w+)_SOURCES\s*=\s*(.*)$", text, re.M):
        out[m.group(1)] = [w for w in m.group(2).split() if w.endswith((".cpp", ".c"))]
    return out


def _run(cmd, **kw):
    return subprocess.run(cmd, stdout=subprocess.PIPE, stderr=subprocess.PIPE, **kw)


def _compile_one(job):
    src, cmd, objdir = job
    pre = _run(cmd + ["-E", src])
    if pre.returncode != 0:
        return (src, None, pre.stderr.decode(errors="replace"))
    h = hashlib.sha256()
    h.update(" ".join(cmd).encode())
    h.update(b"\0")
    h.update(pre.stdout)
    obj = os.path.join(objdir, h.hexdigest()[:32] + ".o")
    if not os.path.exists(obj):
        tmp = obj + ".%d.tmp" % os.getpid()
        r = _run(cmd + ["-c", src, "-o", tmp])
        if r.returncode != 0:
            return (src, None, r.stderr.decode(errors="replace"))
        os.rename(tmp, obj)
    else:
        os.utime(obj)
    return (src, obj, "")


def ensure_build(flavour, verbose=False):
    """Returns {'btcdeb': path, 'tap': path, 'btcc': path, 'white_box': bool}."""
    if flavour not in FLAVOURS:
        raise BuildError("unknown flavour " + flavour)
    fdir = os.path.join(BUILD, flavour)
    objdir = os.path.join(fdir, "obj")
    os.makedirs(objdir, exist_ok=True)
    lock = open(os.path.join(fdir, ".lock"), "w")
    fcntl.flock(lock, fcntl.LOCK_EX)
    try:
        return _ensure_build_locked(flavour, fdir, objdir, verbose)
    finally:
        fcntl.flock(lock, fcntl.LOCK_UN)
        lock.close()


def _ensure_build_locked(flavour, fdir, objdir, verbose):
    ff = FLAVOURS[flavour]
    srcs = _makefile_sources()
    need = ["libbitcoin_a", "libbitcoin_deb_a", "libkerl_a", "btcdeb", "tap", "btcc"]
    for n in need:
        if n not in srcs:
            raise BuildError("Makefile.am has no %s_SOURCES" % n)
    inc = ["-DHAVE_CONFIG_H", "-I" + REPO, "-I" + REPO + "/config", "-I" + REPO + "/secp256k1/include"]
    cxx = ["g++", "-std=c++17", "-w"] + inc + ff
    cc_kerl = ["gcc", "-std=gnu99", "-w", "-fexceptions", "-I" + REPO + "/kerl"] + inc + ff
    # libsecp256k1: from the tree, optimised, not sanitised (DESIGN 7)
    cc_secp = ["gcc", "-std=c89", "-w", "-O2", "-g", "-DHAVE_CONFIG_H", "-I" + REPO + "/secp256k1",
               "-I" + REPO + "/secp256k1/include", "-I" + REPO + "/secp256k1/src", "-fvisibility=hidden"]
    cxx_seam = ["g++", "-std=c++17", "-Wall", "-Wno-unused-result"] + ff
    jobs = {}

    def add(group, path, cmd):
        jobs.setdefault(group, []).append((path, cmd, objdir))

    common = [s for s in srcs["libbitcoin_a"] + srcs["libbitcoin_deb_a"]]
    for s in common:
        add("common", os.path.join(REPO, s), cxx)
    for s in srcs["libkerl_a"]:
        add("kerl", os.path.join(REPO, s), cc_kerl)
    for s in ["secp256k1/src/secp256k1.c", "secp256k1/src/precomputed_ecmult.c", "secp256k1/src/precomputed_ecmult_gen.c"]:
        add("common", os.path.join(REPO, s), cc_secp)
    for tool in ("btcdeb", "tap", "btcc"):
        for s in srcs[tool]:
            add(tool, os.path.join(REPO, s), cxx)
    add("seam", os.path.join(VERIF, "seam", "seam.cpp"), cxx_seam)
    for grp in PROBE_GROUPS:
        add("probe", os.path.join(VERIF, "seam", "probe.cpp"), cxx + ["-DPROBE_GROUP=" + grp, "-DPROBE_" + grp])

    flat = []
    seen = {}
    for g, lst in jobs.items():
        for j in lst:
            key = (j[0], tuple(j[1]))
            if key not in seen:
                seen[key] = None
                flat.append(j)
    with ThreadPoolExecutor(max_workers=os.cpu_count() or 4) as ex:
        results = list(ex.map(_compile_one, flat))
    objs = {}
    errors = []
    for (src, obj, err), j in zip(results, flat):
        objs[(j[0], tuple(j[1]))] = obj
        if obj is None:
            errors.append((src, err))
    no_probe = bool(os.environ.get("BTCSIM_NO_PROBE"))      # selftest: behave as if probe.cpp no longer compiled
    hard = []
    for src, err in errors:
        if not src.endswith("seam/probe.cpp"):
            hard.append((src, err))
    probe_groups = []
    for j in jobs.get("probe", []):
        if objs[(j[0], tuple(j[1]))] is not None and not no_probe:
            probe_groups.append([a for a in j[1] if a.startswith("-DPROBE_GROUP=")][0].split("=")[1])
    probe_ok = "core" in probe_groups
    if hard:
        raise BuildError("cannot compile the tree:\n" + "\n".join("%s:\n%s" % e for e in hard))

    def group_objs(g):
        return [objs[(j[0], tuple(j[1]))] for j in jobs.get(g, [])]

    out = {"white_box": probe_ok, "flavour": flavour, "probe_groups": probe_groups if probe_ok else []}
    wrapflags = ["-Wl," + ",".join("--wrap=" + w for w in WRAPS)]
    for tool in ("btcdeb", "tap", "btcc"):
        parts = group_objs(tool) + group_objs("common") + group_objs("seam")
        if tool != "btcc":
            parts += group_objs("kerl")
        if tool == "btcdeb" and probe_ok:
            parts += [o for o in group_objs("probe") if o is not None]
        h = hashlib.sha256("\n".join(sorted(parts)).encode()).hexdigest()[:16]
        exe = os.path.join(fdir, "btcsim-%s-%s" % (tool, h))
        if not os.path.exists(exe):
            tmp = exe + ".%d.tmp" % os.getpid()
            r = _run(["g++"] + ff + parts + wrapflags + ["-o", tmp])
            if r.returncode != 0:
                raise BuildError("cannot link %s:\n%s" % (tool, r.stderr.decode(errors="replace")))
            os.rename(tmp, exe)
            # drop older links of this tool
            for f in os.listdir(fdir):
                if f.startswith("btcsim-%s-" % tool) and os.path.join(fdir, f) != exe and not f.endswith(".tmp"):
                    try:
                        os.unlink(os.path.join(fdir, f))
                    except OSError:
                        pass
        out[tool] = exe
    _gc(objdir)
    return out


def _gc(objdir, keep=600):
    files = [os.path.join(objdir, f) for f in os.listdir(objdir) if f.endswith(".o")]
    if len(files) <= keep:
        return
    files.sort(key=lambda p: os.path.getmtime(p))
    for p in files[:-keep]:
        try:
            os.unlink(p)
        except OSError:
            pass


def main():
    flavours = sys.argv[1:] or ["asan"]
    for f in flavours:
        try:
            r = ensure_build(f, verbose=True)
        except BuildError as e:
            sys.stderr.write("ensure_build: %s\n" % e)
            sys.exit(2)
        print(f, r)


if __name__ == "__main__":
    main()
