"""Self-tests of the machinery (DESIGN 3.9); not registered as checks.

  python3 -m btcsim.selftest determinism [cases]
  python3 -m btcsim.selftest sensitivity [name-substring ...]
  python3 -m btcsim.selftest falsealarm

sensitivity: each mutant is applied to a scratch copy of /repo under a fresh
mkdtemp (outside /repo and /verif, removed afterwards) and must be caught by
the quick tier of the named check.  falsealarm: semantics-preserving edits must
leave every check green.
"""
import hashlib
import json
import os
import shutil
import subprocess
import sys
import tempfile

from . import build, core
from .prng import Rng, run_seed

VERIF = build.VERIF

# (name, file, old, new, checks that must report it)
MUTANTS = [
    ("rewind-forgets-vfexec", "debugger/interpreter.cpp", "    env.vfExec = env.vfExec_history.back();\n", "", ["C04"]),
    ("rewind-forgets-nopcount", "debugger/interpreter.cpp", "    env.nOpCount = env.nOpCount_history.back();\n", "", ["C04"]),
    ("rewind-forgets-altstack", "debugger/interpreter.cpp", "    env.altstack = env.altstack_history.back();\n", "", ["C04"]),
    ("rewind-forgets-codehash", "debugger/interpreter.cpp", "    env.pbegincodehash = env.pbegincodehash_history.back();\n", "", ["C04"]),
    ("rewind-forgets-execdata", "debugger/interpreter.cpp", "    env.execdata = env.execdata_history.back();\n", "", ["C04"]),
    ("rewind-from-done-pops-op", "instance.cpp", "        env->done = false;\n        return true;\n", "        env->done = false;\n", ["C04"]),
    ("rewind-seq-twice", "debugger/interpreter.cpp", "    RestoreLastSnapshot(env);\n    env.curr_op_seq--;\n", "    RestoreLastSnapshot(env);\n    env.curr_op_seq -= 2;\n", ["C04", "C12"]),
    ("failed-step-not-restored", "debugger/interpreter.cpp",
     "        if (!ok) {\n            // a failed operation leaves the session where it was: undo its\n            // partial effects (pc, stack, ...) together with the above pushes\n            RestoreLastSnapshot(env);\n",
     "        if (!ok) {\n            env.stack_history.pop_back(); env.altstack_history.pop_back(); env.pc_history.pop_back(); env.nOpCount_history.pop_back();\n            env.vfExec_history.pop_back(); env.pbegincodehash_history.pop_back(); env.execdata_history.pop_back(); env.opcode_pos_history.pop_back();\n", ["C12"]),
    ("thrown-step-keeps-snapshot", "debugger/interpreter.cpp", "            RestoreLastSnapshot(env);\n            throw;\n", "            throw;\n", ["C12", "C15"]),
    ("tapscript-two-entries", "debugger/interpreter.cpp",
     "    rv.push_back(strprintf(\"CheckTapTweak: %s\", m_p.ToString().c_str()));\n",
     "    rv.push_back(strprintf(\"Tweak: %s\", m_p.ToString().c_str()));\n    rv.push_back(strprintf(\"CheckTapTweak\"));\n", ["C12"]),
    ("marker-off-by-one", "functions.cpp", "i == env->curr_op_seq ? \" -> \"", "i == env->curr_op_seq + 1 ? \" -> \"", ["C12"]),
    ("header-not-counted", "btcdeb.cpp", "        script_headers.push_back(\"<<< scriptPubKey >>>\");\n        count++;\n", "        script_headers.push_back(\"<<< scriptPubKey >>>\");\n", ["C12", "C15"]),
    ("header-line-dropped", "btcdeb.cpp", "        script_headers.push_back(\"<<< scriptPubKey >>>\");\n        count++;\n", "        script_headers.push_back(\"\");\n", ["C12"]),
    ("pane-skips-header", "functions.cpp", "                l.push_back(headers[siter]);\n            }\n            it = script->begin();", "            }\n            it = script->begin();", ["C12"]),
    ("pane-drops-last-op", "functions.cpp", "            auto s = std::string(buf);\n            if (s.length() > lmax) lmax = s.length();\n            l.push_back(s);", "            auto s = std::string(buf);\n            if (s.length() > lmax) lmax = s.length();\n            if (it != script->end() || siter + 1 < scripts.size() || l.empty()) l.push_back(s);", ["C12"]),
    ("step-echo-previous", "functions.cpp", "    print_dualstack();\n    if (env->curr_op_seq < count) {\n        printf(\"%s\\n\", script_lines[env->curr_op_seq]);\n    }\n    return 0;\n}\n\nint fn_rewind",
     "    print_dualstack();\n    if (env->curr_op_seq < count && env->curr_op_seq > 0) {\n        printf(\"%s\\n\", script_lines[env->curr_op_seq - 1]);\n    }\n    return 0;\n}\n\nint fn_rewind", ["C12"]),
    ("listing-uppercase-name", "btcdeb.cpp", "snprintf(pbuf, 1024 - (pbuf - buf), \"%s\", GetOpName(opcode).c_str());", "snprintf(pbuf, 1024 - (pbuf - buf), \"%s\", opcode == OP_NIP ? \"OP_DROP\" : GetOpName(opcode).c_str());", ["C12"]),
    ("exec-no-exception-guard", "instance.cpp", "    } catch (const std::exception& ex) {\n        fprintf(stderr, \"Error: exception thrown: %s\\n\", ex.what());\n        ok = false;\n    }\n", "    } catch (const std::bad_alloc& ex) {\n        ok = false;\n    }\n", ["C16", "C15"]),
    ("exec-codesep-dangling", "instance.cpp", "                env->pbegincodehash = codehash_before = env->pc;\n", "                codehash_before = env->pbegincodehash;\n", ["C16", "C15"]),
    ("exec-skips-last-token", "instance.cpp", "    for (int i = 0; i < argc; i++) {\n        const char* v = argv[i];\n        const size_t vlen = strlen(v);\n        // empty strings are ignored", "    for (int i = 0; i + 1 < argc || i == 0; i++) {\n        const char* v = argv[i];\n        const size_t vlen = strlen(v);\n        // empty strings are ignored", ["C16"]),
    ("exec-moves-position", "instance.cpp", "    return ok;\n}\n\nbool Instance::configure_tx_txin", "    if (ok && argc > 3) env->curr_op_seq++;\n    return ok;\n}\n\nbool Instance::configure_tx_txin", ["C16"]),
    ("exec-ignores-local-script", "script/interpreter.cpp", "    auto& script = local_script ? *local_script : env.script;", "    auto& script = env.script; (void)local_script;", ["C16", "C15"]),
    ("history-null-stream", "kerl/kerl.c", "    if (fp) {\n      fprintf(fp, \"%s\\n\", escaped ?: s);\n      fclose(fp);\n    }\n", "    fprintf(fp, \"%s\\n\", escaped ?: s);\n    fclose(fp);\n", ["C15"]),
    ("history-buf-minus-one", "kerl/kerl.c", "      size_t len = strlen(buf);\n      if (len > 0 && buf[len-1] == '\\n') buf[len-1] = 0; // get rid of \\n\n", "      buf[strlen(buf)-1] = 0; // get rid of \\n\n", ["C15"]),
    ("delete-strdup", "instance.cpp", "        free((void*)push_del.back());\n", "        delete push_del.back();\n", ["C15", "C08"]),
    ("stdin-fgets-1024", "btcdeb.cpp",
     "        char* line = nullptr;\n        size_t cap = 0;\n        ssize_t len = getline(&line, &cap, stdin);\n        if (len < 0) {\n            fprintf(stderr, \"warning: no input\\n\");\n            len = 0;\n        }\n        while (len > 0 && (line[len-1] == '\\n' || line[len-1] == '\\r')) --len;\n        script_str = strndup(line ? line : \"\", len);\n        free(line);\n",
     "        char buf[1024];\n        if (!fgets(buf, 1024, stdin)) {\n            fprintf(stderr, \"warning: no input\\n\");\n        }\n        int len = strlen(buf);\n        while (len > 0 && (buf[len-1] == '\\n' || buf[len-1] == '\\r')) buf[--len] = 0;\n        script_str = strdup(buf);\n", ["C08", "C15"]),
    ("noninteractive-no-guard", "btcdeb.cpp", "        } catch (const std::exception& ex) {\n            fprintf(stderr, \"error: exception thrown: %s\\n\", ex.what());\n            print_dualstack();\n            return 1;\n        }\n", "        } catch (const std::bad_alloc& ex) {\n            return 1;\n        }\n", ["C08"]),
    ("listing-snprintf-size", "btcdeb.cpp", "snprintf(pbuf, 1024 - (pbuf - buf), \"%s\", HexStr(", "snprintf(pbuf, 1024 + pbuf - buf, \"%s\", HexStr(", ["C15"]),
    ("sighash-dump-stdout", "hash.h", "            fprintf(stderr, \"#%03zu \", size); for (size_t i = 0; i < size; i++) fprintf(stderr, \"%02x\", (uint8_t)pch[i]);\n            fprintf(stderr, \"\\n\");",
     "            printf(\"#%03zu \", size); for (size_t i = 0; i < size; i++) printf(\"%02x\", (uint8_t)pch[i]);\n            printf(\"\\n\");", ["C08"]),
    ("raw-stack-top-first", "functions.cpp", "        for (auto& it : stack) printf(\"%s\\n\", HexStr(std::vector<uint8_t>(it.begin(), it.end())).c_str());", "        for (auto rit = stack.rbegin(); rit != stack.rend(); ++rit) printf(\"%s\\n\", HexStr(std::vector<uint8_t>(rit->begin(), rit->end())).c_str());", ["C08"]),
    ("exit-0-on-failure", "btcdeb.cpp", "            fprintf(stderr, \"error: %s\\n\", ScriptErrorString(*env->serror).c_str());\n            print_dualstack();\n            return 1;", "            fprintf(stderr, \"error: %s\\n\", ScriptErrorString(*env->serror).c_str());\n            print_dualstack();\n            return 0;", ["C08"]),
    ("pipe-out-ignores-isatty", "btcdeb.cpp", "    pipe_out = !isatty(fileno(stdout)) || std::getenv(\"DEBUG_SET_PIPE_OUT\");", "    pipe_out = std::getenv(\"DEBUG_SET_PIPE_OUT\") != nullptr;", ["C08"]),
    ("quiet-changes-result", "btcdeb.cpp", "        print_stack(env->stack, true);\n        return 0;", "        print_stack(env->stack, true);\n        if (ca.m.count('q') && env->stack.size() > 2) printf(\"\\n\");\n        return 0;", ["C08"]),
    ("verbose-not-refused", "btcdeb.cpp", "    if (quiet && verbose) {\n        fprintf(stderr, \"You cannot both require silence and verbosity.\\n\");\n        exit(1);\n    }", "    if (quiet && verbose) {\n        verbose = false;\n    }", ["C08"]),
    ("addr-to-spk-erase-empty", "value.h", "        if (data.empty()) {\n            fprintf(stderr, \"no address payload to convert\\n\");\n            return;\n        }\n", "", ["C15"]),
    ("bech32-empty-index", "value.h", "        if (bech.empty()) {\n            fprintf(stderr, \"bech32(m) string has no data part\\n\");\n            return;\n        }\n", "", ["C15"]),
    ("verify-sig-64", "value.cpp", "    if (args[0].size() != 32) abort(\"invalid input (sighash must be 32 bytes)\");", "    if (args[0].size() != 32 && args[0].size() != 64) abort(\"invalid input (sighash must be 32 or 64 bytes)\");", ["C15"]),
    ("div-by-zero", "debugger/interpreter.cpp", "            if ((env.opcode == OP_DIV || env.opcode == OP_MOD) && num2 == 0) return set_error(serror, SCRIPT_ERR_UNKNOWN_ERROR);\n", "", ["C15"]),
    ("2div-assert", "debugger/interpreter.cpp", "    case OP_2DIV:\n        // (in -- out)", "    case OP_VERIF:\n        // (in -- out)", ["C15"]),
    ("tap-no-guard", "tap.cpp", "        } catch (std::exception const& ex) {\n            abort(\"failed to parse transaction: %s\", ex.what());\n        }\n", "        } catch (std::bad_alloc const& ex) {\n            abort(\"failed to parse transaction: %s\", ex.what());\n        }\n", ["C15"]),
    ("step-no-exception-guard", "instance.cpp", "        } catch (const std::exception& ex) {\n            exception_string = ex.what();\n            return false;\n        }\n        steps--;", "        } catch (const std::bad_alloc& ex) {\n            exception_string = ex.what();\n            return false;\n        }\n        steps--;", ["C15"]),
]

# semantics-preserving edits: every check must stay green
NEUTRAL = [
    ("log-message-reworded", "btcdeb.cpp", "op script loaded. type `help` for usage information", "op script loaded. type `help` for usage information"),
    ("stderr-notice-reworded", "btcdeb.cpp", "notice: btcdeb has gotten quieter; use --verbose if necessary (this message is temporary)", "notice: btcdeb is quiet by default now; --verbose brings the chatter back"),
    ("buffer-widened", "btcdeb.cpp", "    char buf[1024];\n    if (env->sigversion == SigVersion::TAPSCRIPT) {", "    char buf[1024 + 64];\n    if (env->sigversion == SigVersion::TAPSCRIPT) {"),
    ("local-renamed", "functions.cpp", "int fn_step(const char* arg) {", "int fn_step(const char* unused_argument) {"),
    ("restore-order-swapped", "debugger/interpreter.cpp", "    env.stack = env.stack_history.back();\n    env.altstack = env.altstack_history.back();\n", "    env.altstack = env.altstack_history.back();\n    env.stack = env.stack_history.back();\n"),
]


def scratch_copy():
    d = tempfile.mkdtemp(prefix="btcsim-mut-")
    src = os.environ.get("BTCSIM_REPO", "/repo")
    subprocess.check_call(["rsync", "-a", "--exclude", ".git", "--exclude", "*.o", "--exclude", "*.a", "--exclude", "*.lo", "--exclude", "*.la", "--exclude", ".libs",
                           "--exclude", "/btcdeb", "--exclude", "/tap", "--exclude", "/btcc", "--exclude", "/test-btcdeb", src + "/", d + "/repo/"])
    return d


def run_checks(repo, builddir, outdir, checks, cases=None):
    res = {}
    for c in checks:
        env = dict(os.environ, BTCSIM_REPO=repo, BTCSIM_BUILD=builddir, BTCSIM_EVIDENCE_DIR=os.path.join(outdir, "evidence"), BTCSIM_REPLAY_DIR=os.path.join(outdir, "replays"))
        if cases:
            env["BTCSIM_CASES"] = str(cases)
        p = subprocess.run([sys.executable, os.path.join(VERIF, "bin", "sim"), c, "--tier", "quick"], env=env, stdout=subprocess.PIPE, stderr=subprocess.STDOUT)
        res[c] = (p.returncode, p.stdout.decode(errors="replace"))
    return res


def apply(repo, fname, old, new):
    p = os.path.join(repo, fname)
    s = open(p).read()
    if old not in s:
        return False
    open(p, "w").write(s.replace(old, new, 1))
    return True


def sensitivity(filters):
    d = scratch_copy()
    repo = os.path.join(d, "repo")
    bdir = os.path.join(d, "build")
    out = os.path.join(d, "out")
    results = []
    try:
        for (name, fname, old, new, checks) in MUTANTS:
            if filters and not any(f in name for f in filters):
                continue
            orig = open(os.path.join(repo, fname)).read()
            if not apply(repo, fname, old, new):
                print("%-30s STALE (pattern not found in %s)" % (name, fname))
                results.append((name, "stale", {}))
                continue
            try:
                res = run_checks(repo, bdir, out, checks)
            finally:
                open(os.path.join(repo, fname), "w").write(orig)
            caught = [c for c in checks if res[c][0] == 1]
            status = "caught" if caught else "MISSED"
            detail = "; ".join("%s rc=%d" % (c, res[c][0]) for c in checks)
            print("%-30s %-7s %s" % (name, status, detail))
            if not caught:
                for c in checks:
                    print("    " + "\n    ".join(res[c][1].strip().split("\n")[-6:]))
            else:
                for c in caught:
                    for ln in res[c][1].split("\n"):
                        if ln.startswith("violation class"):
                            print("    %s: %s" % (c, ln[:200]))
                            break
            sys.stdout.flush()
            results.append((name, status, {c: res[c][0] for c in checks}))
    finally:
        shutil.rmtree(d, ignore_errors=True)
    missed = [r for r in results if r[1] != "caught"]
    print("%d mutants, %d caught, %d missed/stale" % (len(results), len(results) - len(missed), len(missed)))
    return 0 if not missed else 1


def falsealarm():
    d = scratch_copy()
    repo = os.path.join(d, "repo")
    bdir = os.path.join(d, "build")
    out = os.path.join(d, "out")
    bad = 0
    try:
        for (name, fname, old, new) in NEUTRAL:
            orig = open(os.path.join(repo, fname)).read()
            if not apply(repo, fname, old, new):
                print("%-30s STALE" % name)
                continue
            try:
                res = run_checks(repo, bdir, out, ["C04", "C08", "C12", "C15", "C16"], cases=1500)
            finally:
                open(os.path.join(repo, fname), "w").write(orig)
            alarms = [c for c in res if res[c][0] != 0]
            print("%-30s %s" % (name, "green" if not alarms else "ALARM in " + ",".join(alarms)))
            for c in alarms:
                print("    " + "\n    ".join(res[c][1].strip().split("\n")[-6:]))
            bad += len(alarms)
    finally:
        shutil.rmtree(d, ignore_errors=True)
    return 0 if not bad else 1


def _det_worker(args):
    modname, master, lo, hi, flavour = args
    import importlib
    mod = importlib.import_module(modname)
    ctx = core.Ctx((flavour,))
    out = []
    try:
        for i in range(lo, hi):
            rng = Rng(run_seed(master, i))
            scn = mod.gen(rng, "quick", i)
            a = mod.evaluate(ctx, scn).hashes
            b = mod.evaluate(ctx, scn).hashes
            out.append((i, hashlib.sha256(json.dumps(scn, sort_keys=True).encode()).hexdigest()[:12], a, a == b))
    finally:
        ctx.close()
    return out


def determinism(cases):
    """every case twice in process; the whole sweep at two worker counts and under two PYTHONHASHSEED values; event-log hashes diffed"""
    from concurrent.futures import ProcessPoolExecutor
    import importlib
    master = int(os.environ.get("VERIF_SEED", "20260927"))
    if os.environ.get("BTCSIM_DET_CHILD"):
        W = int(os.environ["BTCSIM_DET_CHILD"])
        allres = {}
        for prop, modname in sorted({"C04": "btcsim.c04", "C08": "btcsim.c08", "C12": "btcsim.c12", "C15": "btcsim.c15", "C16": "btcsim.c16"}.items()):
            per = max(1, cases // W)
            jobs = [(modname, master, s, min(s + per, cases), os.environ.get("BTCSIM_DET_FLAVOUR", "asan")) for s in range(0, cases, per)]
            with ProcessPoolExecutor(max_workers=W) as ex:
                res = [r for chunk in ex.map(_det_worker, jobs) for r in chunk]
            allres[prop] = res
        json.dump(allres, sys.stdout)
        return 0
    runs = []
    for (W, hs, fl) in ((1, "0", "asan"), (16, "12345", "asan"), (16, "777", "plain"), (3, "1", "plain")):
        env = dict(os.environ, BTCSIM_DET_CHILD=str(W), PYTHONHASHSEED=hs, BTCSIM_DET_FLAVOUR=fl)
        p = subprocess.run([sys.executable, "-m", "btcsim.selftest", "determinism", str(cases)], env=env, stdout=subprocess.PIPE, cwd=VERIF)
        if p.returncode != 0:
            print("child failed", W, hs, fl)
            return 2
        runs.append(((W, hs, fl), json.loads(p.stdout.decode())))
        print("sweep W=%d PYTHONHASHSEED=%s flavour=%s done" % (W, hs, fl))
        sys.stdout.flush()
    bad = 0
    total = 0
    for (cfg, r) in runs:
        for prop, lst in r.items():
            for (i, sd, hashes, same) in lst:
                total += 1
                if not same:
                    bad += 1
                    print("NONDETERMINISTIC in process: %s case %d (%s)" % (prop, i, cfg))
    # same flavour, different worker count / hash seed: identical logs
    for a, b in ((0, 1), (2, 3)):
        ra, rb = runs[a][1], runs[b][1]
        for prop in ra:
            ma = {x[0]: (x[1], x[2]) for x in ra[prop]}
            mb = {x[0]: (x[1], x[2]) for x in rb[prop]}
            for i in ma:
                if i in mb and ma[i] != mb[i]:
                    bad += 1
                    print("DIVERGES between sweeps %s and %s: %s case %d" % (runs[a][0], runs[b][0], prop, i))
    print("determinism: %d case executions x2, %d divergences" % (total, bad))
    return 0 if not bad else 1


def main(argv):
    if not argv:
        print(__doc__)
        return 2
    if argv[0] == "sensitivity":
        return sensitivity(argv[1:])
    if argv[0] == "falsealarm":
        return falsealarm()
    if argv[0] == "determinism":
        return determinism(int(argv[1]) if len(argv) > 1 else 400)
    return 2


if __name__ == "__main__":
    sys.exit(main(sys.argv[1:]))
