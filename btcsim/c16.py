"""C16 - exec applies operations exactly as the script would.

At a seeded prefix length k of a session the user issues `exec t1 .. tn`; the
reference is the same world whose script has enc(t1..tn) spliced in at
operation k, run with the canonical schedule.
"""
from . import gen as G, proto, ref as refmod, script as S, session, workloads
from .core import Eval
from .prng import Rng

PROP = "C16"
LEVEL = "exploration"
RULE = ("case = one generated btcdeb session x a prefix length k x one `exec` token list (opcode names with and without OP_, decimal integers, hex pushes; "
        "in the fault regime one token fails or throws), followed by stepping to the end; compared with the reference session whose script has the encoded "
        "tokens spliced in at operation k; non-trivial = exec executed at least one token at k >= 1 and the continuation ran; distinct = distinct "
        "(k, token list, state digests) tuple")
ASSUMPTIONS = [
    "token encoding as documented for exec: decimal -> number push, even-length hex -> data push, name -> opcode (DESIGN A.5)",
    "no executed signature operation with a real transaction digest precedes the splice (mock signatures only), so the spliced script hashes are irrelevant",
    "states after a failed exec token are not compared (the statement only fixes the reported error)",
]
RERUN_PLAIN_AFTER_SANITIZER = True      # see core.evaluate_case
TIERS = {
    "quick": {"cases": 7000, "flavours": ("asan",), "cap_s": 600},
    "thorough": {"cases": 250000, "flavours": ("asan",), "cap_s": 3 * 3600},
}
SHRINK_LISTS = ["tokens", "stack"]
CMP = ["stack", "altstack", "vfexec", "nOpCount", "done"]
POS = ["curr_op_seq", "pc", "script", "pend", "hist_stack", "hist_alt", "hist_pc", "hist_nop", "successor", "is_p2sh"]


# An operation that checks signatures looks for the signature's bytes in the script itself
# (FindAndDelete / CONST_SCRIPTCODE).  The spliced reference script contains the exec'd pushes, the
# real script cannot: when the reference stops with this error the two are not comparable.
FINDANDDELETE = "Signature is found in scriptCode"


def render_token(rng, t):
    """-> (text typed after `exec`, bytes it must encode to)"""
    if isinstance(t, int):
        return str(t), S.push_num(t)
    if isinstance(t, (bytes, bytearray)):
        h = bytes(t).hex()
        return h, S.push(bytes(t))
    name = t
    short = name[3:]
    # without the OP_ prefix a name that is even-length hex (1ADD) or a decimal (1..16) is, by exec's
    # documented rule, a push - keep the prefix there
    hexlike = len(short) % 2 == 0 and all(ch in "0123456789abcdefABCDEF" for ch in short)
    txt = short if (rng.chance(40) and not short.isdigit() and not hexlike) else name
    return txt, bytes([S.OP[name]])


def looks_decimal(h):
    try:
        return str(int(h)) == h and int(h) != 0 and abs(int(h)) < (1 << 31)
    except ValueError:
        return False


# tokens whose reading follows from exec's documented rule (DESIGN A.5) but is easy to get wrong:
# decimals that do not round-trip through %d, or are out of int range, are hex pushes when of even length
RULE_TOKENS = [("00", "0100"), ("0000", "020000"), ("0100", "020100"), ("0010", "020010"), ("2147483648", "052147483648"),
               ("99999999999999", "0799999999999999"), ("-1", "4f"), ("16", "60"), ("17", "0111"), ("-16", "0190"), ("-17", "0191"),
               ("127", "017f"), ("128", "028000"), ("255", "02ff00"), ("256", "020001"), ("32767", "02ff7f"), ("32768", "03008000"),
               ("2147483647", "04ffffff7f"), ("-2147483647", "04ffffffff"), ("0", "00"), ("TRUE", "51"), ("FALSE", "00"), ("OP_TRUE", "51"),
               ("CHECKLOCKTIMEVERIFY", "b1"), ("OP_CHECKSEQUENCEVERIFY", "b2")]


def gen_tokens(rng, regime, opts=()):
    g = G.ScriptGen(rng, max_ops=8, allow_disabled=("-z" in opts), pretend=any(o.startswith("--pretend") for o in opts))
    kind = rng.weighted([(5, "self-contained"), (3, "consuming"), (2, "control"), (1, "single"), (2, "rule")])
    if kind == "rule":
        out = []
        for _ in range(rng.range(1, 3)):
            t = rng.choice(RULE_TOKENS)
            out.append([t[0], t[1]])
        if rng.chance(30):
            # the spelling the tool itself recommends for data ("use 0x1234 to force into hexadecimal interpretation"):
            # exec may refuse it (then nothing changes) - but if it takes it, it is a push of exactly these bytes
            b = rng.choice([bytes([rng.range(0, 255)]), bytes([rng.range(1, 255), 0]), bytes(rng.range(1, 4)), rng.bytes(rng.range(1, 4)), rng.bytes(rng.range(5, 40)),
                            bytes([rng.range(1, 16)]), b"\x81", b"\x80", b"\x00\x80", bytes([1, 0, 0, 0])])
            out.insert(rng.below(len(out) + 1), ["0x" + b.hex(), S.push(b).hex(), "optional"])
        if rng.chance(50):
            out.append(["OP_SIZE", "82"])
        return out
    if kind == "self-contained":
        g.build(rng.range(1, 3))
    elif kind == "single":
        g.emit(rng.choice(["OP_DUP", "OP_DROP", "OP_DEPTH", "OP_NOP", "OP_1ADD", "OP_TOALTSTACK", "OP_SIZE", 7, -1, 0]))
    elif kind == "consuming":
        for _ in range(rng.range(1, 3)):
            g.emit(rng.choice(["OP_DUP", "OP_DROP", "OP_SWAP", "OP_TOALTSTACK", "OP_FROMALTSTACK", "OP_DEPTH", "OP_SIZE", "OP_IFDUP", "OP_NIP", "OP_OVER", 3, 0, "OP_CODESEPARATOR"]))
    else:
        g.emit(*rng.choice([[1, "OP_IF"], [0, "OP_IF"], ["OP_ELSE"], ["OP_ENDIF"], [0, "OP_NOTIF", 5, "OP_ENDIF"], [1, "OP_IF", 2, "OP_ELSE", 3, "OP_ENDIF"],
                            [0, "OP_IF", "OP_CODESEPARATOR", "OP_ENDIF"], [1, "OP_IF", "OP_CODESEPARATOR", "OP_ENDIF"], ["OP_CODESEPARATOR"],
                            [1, "OP_NOTIF", "OP_CODESEPARATOR", "OP_ELSE", 4, "OP_ENDIF"]]))
    toks = g.toks[:6]
    if regime == "fault":
        bad = G.failing_op(rng) if rng.chance(50) else G.throwing_op(rng)
        at = rng.below(len(toks) + 1)
        toks = toks[:at] + bad + toks[at:]
    out = []
    for t in toks:
        if isinstance(t, str) and t.startswith("raw:"):
            # explicit PUSHDATA forms cannot be typed as an exec token: use the data as a plain hex push
            d = [x for x in S.decode(bytes.fromhex(t[4:]))][0][2] or b""
            t = d if len(d) >= 2 else d + b"\xaf\xaf"
        if isinstance(t, (bytes, bytearray)):
            h = bytes(t).hex()
            if looks_decimal(h) or len(t) == 0:
                t = bytes(t) + b"\xaf"
        txt, enc = render_token(rng, t)
        out.append([txt, enc.hex()])
    return out


def gen(rng, tier, idx):
    scn = workloads.session_scenario(rng, purpose="exec", allow_spend=False)
    while scn.get("family") == "p2sh-plain":
        # the P2SH form is a property of the whole script: splicing operations into it changes what it is
        scn = workloads.session_scenario(rng, purpose="exec", allow_spend=False)
    scn["observe"] = rng.chance(50)      # observers quadruple the delivered lines; the other half relies on the probe alone
    scn.pop("discard_stdout", None)      # this check reads what the tool prints
    if rng.chance(30) and len(scn["script"]) // 2 <= 3000 and not any(o.startswith("--pretend") for o in scn["opts"]):
        # the same script under the segwit v0 / tapscript rules: executed as the witness script / tap leaf of a
        # signature-free spend built by the harness (both for the session and for the spliced reference)
        scn["wrap"] = rng.choice(["p2wsh", "tapscript", "tapscript"])
        scn["wrap_depth"] = rng.range(0, 3)
    scn["regime"] = rng.weighted([(60, "clean"), (25, "fault"), (15, "noise")])
    scn["tokens"] = gen_tokens(rng, "fault" if (scn["regime"] == "fault" or (scn["regime"] == "noise" and rng.chance(60))) else "clean", scn["opts"])
    scn["k"] = rng.below(1000)
    scn["faults"] = workloads.inert_environment(rng) if rng.chance(12) else []
    if scn["regime"] == "noise":
        scn["noise"], scn["noise_equiv"] = gen_noise(rng)
    return scn


def gen_noise(rng):
    """commands issued before the exec whose net effect on the session state is known:
    (what session A does, the plain equivalent session B does instead)"""
    a, b = [], []
    for _ in range(rng.range(1, 3)):
        k = rng.below(10)
        if k == 9:
            a.append(["sigint"])         # Ctrl-C at the prompt: ends the session, or - with a handler - must leave no trace
        elif k == 0:
            a.append(["exec", "0102030405", "OP_1ADD"]); b.append(["exec", "0102030405", "OP_NOP"])  # throws after the push (the op is counted)
        elif k == 1:
            a.append(["exec", "5", "0102030405", "OP_ADD"]); b.append(["exec", "5", "0102030405", "OP_NOP"])
        elif k == 2:
            a.append(["exec", "OP_0", "OP_VERIFY"]); b.append(["exec", "OP_0", "OP_NOP"])            # fails, operand stays
        elif k == 3:
            a.append(["exec", "7", "OP_RETURN"]); b.append(["exec", "7", "OP_NOP"])
        elif k == 4:
            a.append(["tf", "int", "0x0102030405"])                                                  # throws inside tf
        elif k == 5:
            a.append(["unknown", "frobnicate"])
        elif k == 6:
            # rejected before execution (an unknown word first, in the middle, or last): nothing at all may happen
            a.append(rng.choice([["exec", "OP_NOSUCHOP"], ["exec", "7", "8", "OP_BOGUS"], ["exec", "7", "OP_TOALTSTACK", "0x08"],
                                 ["exec", "0", "OP_IF", "if"], ["exec", "OP_1", "OP_BOGUS", "OP_2"]]))
        elif k == 7:
            a.append(rng.choice([["tf", "sha256", "0x01"], ["tf", "bech32-encode", "0x" + "11" * 20], ["tf", "addr-to-scriptpubkey", "1BvBMSEYstWetqTFn5Au4m4GFg7xJaNVN2"],
                                 ["tf", "verify-sig", "0x" + "22" * 32, "0x02" + "33" * 32, "0x3006020101020101"], ["tf", "combine-pubkeys", "0x02" + "79be667ef9dcbbac55a06295ce870b07029bfcdb2dce28d959f2815b16f81798", "0x02" + "79be667ef9dcbbac55a06295ce870b07029bfcdb2dce28d959f2815b16f81798"],
                                 ["help"], ["stack"], ["tf", "-h"]]))
            a.append(["print"])
        else:
            a.append(["exec", "OP_RESERVED"])                                                        # bad opcode: no effect at all (not even counted)
    return a, b


def shrink_extra(scn, still, budget):
    return workloads.shrink_script(scn, still, budget)


def materialise(scn, script_bytes):
    """-> (scenario that runs these script bytes, number of steps before the script's first operation)"""
    s2 = dict(scn)
    if not scn.get("wrap"):
        s2["script"] = script_bytes.hex()
        return s2, 0
    from . import spend
    sp = spend.make_nosig(scn["wrap"], script_bytes, [bytes.fromhex(x) for x in scn.get("stack", [])], scn.get("wrap_depth", 1))
    s2["script"] = None
    s2["stack"] = []
    s2["spend"] = {"tx": sp["tx"], "txin": sp["txin"]}
    return s2, sp["commit_steps"]


def sub(probe):
    if not probe or probe.get("env") != "ok":
        return None
    return tuple(probe.get(k, "") for k in CMP)


def pos(probe):
    if not probe or probe.get("env") != "ok":
        return None
    return tuple(probe.get(k, "") for k in POS)


def diff(names, a, b):
    return ["%s: %s != %s" % (k, x[:60], y[:60]) for k, x, y in zip(names, a, b) if x != y]


def evaluate(ctx, scn):
    if scn.get("regime") == "noise" and scn.get("noise") is not None:
        return evaluate_noise(ctx, scn)
    return evaluate_splice(ctx, scn)


def evaluate_noise(ctx, scn):
    """The outcome of `exec` depends on the session state only, not on what was typed before: session A issues
    commands that throw / fail / are unknown, session B their plain equivalent; where both stand in the same
    state before the exec, the reply and every later state must be equal."""
    ev = Eval()
    raw = bytes.fromhex(scn["script"])
    try:
        ops = S.decode(raw)
    except ValueError:
        return ev
    nops = len(ops)
    k = scn["k"] % (nops + 1)
    toks = scn["tokens"]
    runs = []
    tscn, base = materialise(scn, raw)
    k0 = k
    k = k + base
    for noise in (scn["noise"], scn["noise_equiv"]):
        items = [["sync"]] + [["step"]] * k + [list(x) for x in noise] + [["sync"]] + [["exec"] + [t[0] for t in toks]] + [["step"]] * (nops - k0 + 2)
        w = session.build_world(tscn, sched=items)
        r = ctx.run(w)
        ev.hashes.append(r.hash())
        ev.counters["term:" + r.classify()[0]] += 1
        cmds = session.parse_session(w, r, items)
        target = 1 + k + len(noise)       # item index of the second sync; Ctrl-C items produce no command entry
        at = next((i for i, c in enumerate(cmds) if c.index == target), len(cmds))
        runs.append((items, cmds, at, r))
    (ia, ca, xa, ra), (ib, cb, xb, rb) = runs
    if ra.classify()[0] == "interrupted":
        ev.counters["noise_session_ended_by_ctrl_c"] += 1
        return ev
    if ra.classify()[0] == "overflow" or rb.classify()[0] == "overflow":
        ev.counters["inconclusive_log_overflow"] += 1
        return ev
    if xa + 1 >= len(ca) or xb + 1 >= len(cb) or ca[xa].reply is None or cb[xb].reply is None:
        ev.counters["noise_not_reached"] += 1
        return ev
    pa, pb = session.wb_state(ca[xa].post), session.wb_state(cb[xb].post)
    if pa is None or pb is None or pa != pb:
        ev.counters["noise_prestate_differs"] += 1     # e.g. a repair that rolls a failed exec back: nothing to compare
        return ev
    ev.counters["probe:exec_after_noise_same_prestate"] += 1
    n = min(len(ca) - xa, len(cb) - xb)
    for j in range(1, n):
        a, b = ca[xa + j], cb[xb + j]
        if a.reply is None or b.reply is None:
            if (a.reply is None) != (b.reply is None):
                ev.add(PROP, "history-dependence", "termination", "after %s the session ends differently than after %s" % (scn["noise"], scn["noise_equiv"]))
            break
        what = "`%s`" % session.render_item(a.item)[:50]
        if a.reply != b.reply:
            ev.add(PROP, "history-dependence", "error-text" if a.reply[0] == b.reply[0] else "outcome",
                   "%s answers %r after the commands %s but %r after %s, from the same session state" % (what, a.reply, [" ".join(x) for x in scn["noise"]], b.reply, [" ".join(x) for x in scn["noise_equiv"]]))
            break
        sa, sb = session.wb_state(a.post), session.wb_state(b.post)
        if sa is not None and sb is not None and sa != sb:
            d = session.wb_diff(sb, sa)
            ev.add(PROP, "history-dependence", d[0].split(":")[0], "%s leaves a different state depending on earlier failed commands: %s" % (what, "; ".join(d[:3])))
            break
    ev.nontrivial = k >= 1 and ra.normal() and rb.normal()
    ev.cov = [("noise", k, tuple(t[0] for t in toks), tuple(tuple(x) for x in scn["noise"]))]
    return ev


def evaluate_splice(ctx, scn):
    ev = Eval()
    raw = bytes.fromhex(scn["script"])
    try:
        ops = S.decode(raw)
    except ValueError:
        return ev
    nops = len(ops)
    k = scn["k"] % (nops + 1)
    toks = scn["tokens"]
    n = len(toks)
    cut = ops[k][0] if k < nops else len(raw)
    spliced = raw[:cut] + b"".join(bytes.fromhex(t[1]) for t in toks) + raw[cut:]
    if len(spliced) > 10000:
        return ev
    rscn, base = materialise(scn, spliced)
    tscn, _ = materialise(scn, raw)
    ref = refmod.reference(ctx, rscn, ev, max_steps=base + nops + n + 2)
    if scn.get("wrap"):
        ev.counters["probe:exec_in_%s_session" % scn["wrap"]] += 1
    ev.counters["term:" + ref.run.classify()[0]] += 1
    if not ref.started:
        ev.counters["ref_not_started"] += 1
        return ev
    if ref.crashed:
        ev.counters["ref_incomplete"] += 1
        return ev
    splice_len = len(spliced) - len(raw)

    def map_offset(r):
        """byte offset in the spliced reference script -> the corresponding offset in the session's script
        (everything inside the splice corresponds to the exec point)"""
        if r < 0 or r <= cut:
            return r
        if r <= cut + splice_len:
            return cut
        return r - splice_len
    kk = k                  # position inside the script (for the messages)
    k = k + base            # position in the session: the commitment steps come first
    items = [["sync"]] + [["step"]] * k + ([["exec"] + [t[0] for t in toks]]) + [["step"]] * (nops - kk + 2)
    w = session.build_world(tscn, sched=items)
    run = ctx.run(w)
    ev.hashes.append(run.hash())
    ev.counters["term:" + run.classify()[0]] += 1
    if run.classify()[0] == "overflow":
        ev.counters["inconclusive_log_overflow"] += 1
        return ev
    cmds = session.parse_session(w, run, items)
    net = 0
    tainted = False
    exec_done = False
    exec_ok = False
    trace = []
    for ci, c in enumerate(cmds):
        if c.reply is None:
            break
        if ci == 0:
            continue
        kind, rep = c.kind, c.reply[0]
        if kind == "step" and not exec_done:
            if rep != "accepted":
                tainted = True          # the prefix itself fails: nothing to compare
                ev.counters["prefix_failed"] += 1
                break
            net += 1
            continue
        if kind == "exec":
            exec_done = True
            pre_pos, post_pos = pos(c.pre), pos(c.post)
            prev = cmds[ci - 1]
            pre_print = prev.obs.get("print")
            post_print = c.obs.get("print")
            if n == 0:
                if rep != "usage":
                    ev.add(PROP, "usage", "no-tokens", "`exec` without arguments did not print its usage")
                a, b = session.wb_state(c.pre), session.wb_state(c.post)
                if a is not None and b is not None and a != b:
                    ev.add(PROP, "usage", "changes-state", "`exec` without arguments changed %s" % "; ".join(session.wb_diff(a, b)[:3]))
                continue
            # clause 2: position untouched
            if pre_pos is not None and post_pos is not None and pre_pos != post_pos:
                d = diff(POS, pre_pos, post_pos)
                ev.add(PROP, "position-moved", d[0].split(":")[0], "`exec %s` moved the session position: %s" % (" ".join(t[0][:20] for t in toks), "; ".join(d[:3])))
            elif pre_print is not None and post_print is not None and pre_print != post_print:
                ev.add(PROP, "position-moved", "bb:listing", "`exec` changed the listing or its marker")
            if rep == "invalid":
                if any(len(t) > 2 and t[2] == "optional" for t in toks):
                    # a form the tool is free to refuse: a refused exec changes nothing
                    a, b = session.wb_state(c.pre), session.wb_state(c.post)
                    if a is not None and b is not None and a != b:
                        ev.add(PROP, "refused-exec-changes-state", session.wb_diff(a, b)[0].split(":")[0], "`exec %s` was refused (%s) but changed %s"
                               % (" ".join(t[0][:20] for t in toks), c.reply[1][:60], "; ".join(session.wb_diff(a, b)[:3])))
                    ev.counters["probe:optional_token_refused"] += 1
                else:
                    ev.add(PROP, "token-rejected", "parse", "exec rejected a documented token form: %s" % c.reply[1][:80])
                tainted = True
                continue
            if rep == "crashed":
                kd = run.classify()
                ev.add(PROP, "exec-kills-process", kd[0], "`exec %s` terminated the process (%s %s) instead of reporting an error" % (" ".join(t[0][:20] for t in toks), kd[0], kd[1][:80]))
                tainted = True
                continue
            if rep == "failed":
                ev.counters["probe:exec_failed"] += 1
                # clause 4: same error as the reference's failing step, which must be one of the spliced ops
                if ref.fail is None or not (k < ref.fail[0] <= k + n):
                    where = "the spliced script %s" % ("fails at step %d" % ref.fail[0] if ref.fail else "runs through")
                    ev.add(PROP, "error-differs", "spurious-failure", "exec reported %r but %s (exec at k=%d, %d tokens)" % (c.reply[1][:60], where, k, n))
                elif ref.fail[1] == FINDANDDELETE:
                    ev.counters["inconclusive_findanddelete"] += 1      # the reference script contains the exec'd signature, the real one cannot
                elif ref.fail[1] != c.reply[1] and not (ref.fail[1].startswith("exception") and "thrown" in ref.fail[1]):
                    ev.add(PROP, "error-differs", "text", "exec reported %r, the same operation inside the script reports %r" % (c.reply[1][:60], ref.fail[1][:60]))
                if ref.fail and ref.fail[0] == k + 1:
                    ev.counters["probe:exec_fails_at_op_1"] += 1
                elif ref.fail:
                    ev.counters["probe:exec_fails_at_op_k"] += 1
                # a failed exec either took no effect at all (a repair may roll it back) or its operations before the
                # failing one took effect *including* their share of the operation count
                if ref.fail and k < ref.fail[0] <= k + n and c.pre and c.post:
                    a0, a1 = sub(c.pre), sub(c.post)
                    rp = ref.probes[ref.fail[0] - 1] if ref.fail[0] - 1 < len(ref.probes) else None
                    if a0 is not None and a1 is not None and a0 != a1 and rp and rp.get("nOpCount", "") != "" and c.post.get("nOpCount", "") != "":
                        if int(c.post["nOpCount"]) < int(rp["nOpCount"]):
                            ev.add(PROP, "state-after-failed-exec", "nOpCount", "`exec %s` failed at token %d with its earlier tokens applied, but the operation count is %s; the script counts %s up to there"
                                   % (" ".join(t[0][:20] for t in toks), ref.fail[0] - k, c.post["nOpCount"], rp["nOpCount"]))
                tainted = True          # post-failure states are not compared with the reference ...
                # ... but nothing after the failing operation may have run: the same exec cut after the failing token must end in the same state
                if ref.fail and k < ref.fail[0] < k + n:
                    j = ref.fail[0] - k
                    items_t = [["sync"]] + [["step"]] * k + [["exec"] + [t[0] for t in toks[:j]]]
                    wt = session.build_world(tscn, sched=items_t)
                    rt = ctx.run(wt)
                    ev.hashes.append(rt.hash())
                    ct = session.parse_session(wt, rt, items_t)
                    if ct and ct[-1].reply is not None and ct[-1].post is not None and c.post is not None:
                        ev.counters["probe:exec_failure_with_tokens_after_it"] += 1
                        a, b = sub(c.post), sub(ct[-1].post)
                        if a != b:
                            d = diff(CMP, b, a)
                            ev.add(PROP, "continues-after-failure", d[0].split(":")[0],
                                   "`exec %s` fails at token %d but the tokens after it still took effect: %s" % (" ".join(t[0][:20] for t in toks), j, "; ".join(d[:3])))
                        elif ct[-1].reply != c.reply:
                            ev.add(PROP, "continues-after-failure", "reply", "`exec` of the tokens up to the failing one answers %r, the full list %r" % (ct[-1].reply, c.reply))
                continue
            # accepted
            if ref.fail is not None and k < ref.fail[0] <= k + n and ref.fail[1] == FINDANDDELETE:
                ev.counters["inconclusive_findanddelete"] += 1
                tainted = True
                continue
            if ref.fail is not None and k < ref.fail[0] <= k + n:
                ev.add(PROP, "error-differs", "missed-failure", "exec reported success but spliced operation %d fails in the script with %r" % (ref.fail[0] - k, ref.fail[1][:60]))
                tainted = True
                continue
            exec_ok = True
            if c.post and c.post.get("pbegincodehash") == "-1" and c.pre and c.pre.get("pbegincodehash") != "-1":
                ev.add(PROP, "position-moved", "pbegincodehash-dangling", "after `exec %s` the start of the signed script code points outside the script being debugged" % " ".join(t[0][:20] for t in toks))
            if c.pre and c.pre.get("vfexec") and "0" in c.pre.get("vfexec", ""):
                ev.counters["probe:exec_in_unexecuted_branch"] += 1
            net += n
        elif kind == "step":
            if rep == "accepted":
                net += 1
            elif rep == "failed":
                if not tainted and ref.fail and ref.fail[1] == FINDANDDELETE:
                    ev.counters["inconclusive_findanddelete"] += 1
                elif not tainted:
                    if not ref.fail or ref.fail[0] != net + 1:
                        ev.add(PROP, "continuation", "unexpected-failure", "after exec, step %d of the continuation fails with %r; the spliced script %s"
                               % (net + 1 - n, c.reply[1][:60], "fails elsewhere" if ref.fail else "does not fail"))
                    elif ref.fail[1] != c.reply[1]:
                        ev.add(PROP, "continuation", "error-text", "continuation fails with %r, the spliced script with %r" % (c.reply[1][:60], ref.fail[1][:60]))
                tainted = True
            elif rep == "refused":
                if not tainted and not (ref.finished and net == ref.L):
                    ev.add(PROP, "continuation", "premature-end", "session ended after %d operations, the spliced script has %d" % (net, ref.L))
                break
        if tainted or not exec_done:
            continue
        if ref.fail and ref.fail[1] == FINDANDDELETE and net >= ref.L:
            ev.counters["inconclusive_findanddelete"] += 1
            tainted = True
            continue
        # clauses 1 and 3: state equality with the spliced reference
        if 0 <= net < len(ref.states):
            rbb, rwb_full = ref.states[net]
            rprobe = ref.probes[net]
            # the start of the signed script code: where the reference has it, translated to the session's script
            if (c.post and rprobe and c.post.get("pbegincodehash", "") not in ("", "-1") and rprobe.get("pbegincodehash", "") not in ("", "-1")
                    and c.post.get("script") == raw.hex()):
                want_cs = map_offset(int(rprobe["pbegincodehash"]))
                if int(c.post["pbegincodehash"]) != want_cs and not tainted:
                    ev.add(PROP, "state-after-exec" if kind == "exec" else "continuation", "pbegincodehash",
                           "after `%s` the signed script code starts at byte %s of the script; with the tokens inside the script it would start at byte %d"
                           % (session.render_item(c.item)[:60], c.post["pbegincodehash"], want_cs))
                    tainted = True
            a, b = sub(c.post), sub(rprobe)
            clause = "state-after-exec" if kind == "exec" else "continuation"
            if a is not None and b is not None and a != b:
                d = diff(CMP, b, a)
                ev.add(PROP, clause, d[0].split(":")[0], "after `%s` (k=%d, %d tokens) %s; expected as in the script with the tokens spliced in"
                       % (session.render_item(c.item)[:60], k, n, "; ".join(d[:3])))
                tainted = True
            else:
                bb = session.bb_state(c)
                if bb is not None and rbb is not None and bb[:3] != rbb[:3]:
                    which = [nm for nm, x, y in zip(("stack", "altstack", "vfexec"), bb, rbb) if x != y][0]
                    ev.add(PROP, clause, "bb:" + which, "after `%s` the observable %s differs from the script with the tokens spliced in" % (session.render_item(c.item)[:60], which))
                    tainted = True
        trace.append((kind, rep, sub(c.post)))
    ev.nontrivial = exec_ok and k >= 1 and run.normal()
    ev.cov = [(k, tuple(t[0] for t in toks))] + trace
    return ev
