"""Seeded workload generation: scripts that run deep, with every piece of
per-step state live, and the failing / throwing operations used as faults."""
from . import script as S

UNARY = ["OP_1ADD", "OP_1SUB", "OP_NEGATE", "OP_ABS", "OP_NOT", "OP_0NOTEQUAL"]
BINARY = ["OP_ADD", "OP_SUB", "OP_BOOLAND", "OP_BOOLOR", "OP_NUMEQUAL", "OP_NUMNOTEQUAL", "OP_LESSTHAN",
          "OP_GREATERTHAN", "OP_LESSTHANOREQUAL", "OP_GREATERTHANOREQUAL", "OP_MIN", "OP_MAX"]
HASHES = ["OP_RIPEMD160", "OP_SHA1", "OP_SHA256", "OP_HASH160", "OP_HASH256"]
NOPS_OK = ["OP_NOP"]
NOPS_DISCOURAGED = ["OP_NOP1", "OP_NOP4", "OP_NOP5", "OP_NOP6", "OP_NOP7", "OP_NOP8", "OP_NOP9", "OP_NOP10"]

# pretend-valid material (any bytes do: the pair is looked up, not verified)
PRETEND_SIG = bytes.fromhex("3044022000" + "11" * 31 + "022000" + "22" * 31 + "01")
PRETEND_KEY = bytes.fromhex("02" + "ab" * 32)
PRETEND_KEY2 = bytes.fromhex("03" + "cd" * 32)
PRETEND_SIG2 = bytes.fromhex("3044022000" + "33" * 31 + "022000" + "44" * 31 + "01")
PRETEND_KEY3 = bytes.fromhex("02" + "ef" * 32)     # only ever listed together with PRETEND_SIG, which a later pair re-assigns


class ScriptGen:
    """Builds a token list op by op with a shallow shadow model: `st` is a list
    of item types ('n' small number, 'd' data), `alt` likewise, so that the
    generated script executes deep instead of dying at the first opcode."""

    def __init__(self, rng, allow_disabled=False, flags_off=(), pretend=False, max_ops=40, minimalif=False):
        self.r = rng
        self.toks = []
        self.st = []
        self.alt = []
        self.allow_disabled = allow_disabled
        self.flags_off = set(flags_off)
        self.pretend = pretend
        self.nonpush = 0
        self.max_ops = max_ops
        self.if_depth = 0
        self.features = set()

    # ---- helpers
    def emit(self, *t):
        for x in t:
            self.toks.append(x)
            if isinstance(x, str) and not x.startswith("raw:") and S.OP[x] > 0x60:
                self.nonpush += 1

    def push_small(self):
        n = self.r.weighted([(6, self.r.range(0, 16)), (1, -1), (3, self.r.range(17, 2000)), (2, -self.r.range(2, 2000)),
                             (1, self.r.range(70000, 1 << 20))])
        self.emit(n)
        self.st.append("n")

    def push_data(self):
        ln = self.r.weighted([(5, self.r.range(5, 40)), (2, self.r.range(41, 75)), (1, self.r.range(76, 255)),
                              (1, self.r.range(256, 520))])
        self.emit(self.r.bytes(ln))
        self.st.append("d")

    def top_num(self, k=1):
        return len(self.st) >= k and all(t == "n" for t in self.st[-k:])

    def ensure_nums(self, k):
        while not self.top_num(k):
            self.push_small()

    # ---- one snippet
    def snippet(self):
        r = self.r
        choices = [(8, "push"), (2, "pushdata"), (5, "unary"), (6, "binary"), (5, "stackop"), (3, "alt"), (2, "hash"),
                   (2, "equal"), (2, "verify"), (3, "if"), (1, "nop"), (1, "within"), (1, "pick"), (1, "size"), (1, "depth")]
        if self.allow_disabled:
            choices.append((4, "disabled"))
        if self.pretend:
            choices.append((2, "checksig"))
            choices.append((1, "multisig"))
        if "CONST_SCRIPTCODE" in self.flags_off:
            choices.append((2, "codesep"))
        if "MINIMALDATA" in self.flags_off:
            choices.append((3, "oddpush"))
        k = r.weighted(choices)
        getattr(self, "s_" + k)()

    def s_push(self):
        self.push_small()

    def s_pushdata(self):
        self.push_data()

    def s_unary(self):
        self.ensure_nums(1)
        self.emit(self.r.choice(UNARY))

    def s_binary(self):
        self.ensure_nums(2)
        self.emit(self.r.choice(BINARY))
        self.st.pop()

    def s_within(self):
        self.ensure_nums(3)
        self.emit("OP_WITHIN")
        self.st.pop(); self.st.pop()

    def s_stackop(self):
        r = self.r
        op = r.choice(["OP_DUP", "OP_DROP", "OP_NIP", "OP_OVER", "OP_SWAP", "OP_ROT", "OP_TUCK", "OP_2DUP", "OP_3DUP",
                       "OP_2DROP", "OP_2OVER", "OP_2ROT", "OP_2SWAP", "OP_IFDUP"])
        need = {"OP_DUP": 1, "OP_DROP": 1, "OP_NIP": 2, "OP_OVER": 2, "OP_SWAP": 2, "OP_ROT": 3, "OP_TUCK": 2, "OP_2DUP": 2,
                "OP_3DUP": 3, "OP_2DROP": 2, "OP_2OVER": 4, "OP_2ROT": 6, "OP_2SWAP": 4, "OP_IFDUP": 1}[op]
        while len(self.st) < need:
            self.push_small()
        st = self.st
        if op == "OP_IFDUP":
            # the shadow model does not know values: make the top a known non-zero number
            self.emit(self.r.range(1, 16))
            st.append("n")
            self.emit(op)
            st.append("n")
            return
        self.emit(op)
        if op == "OP_DUP":
            st.append(st[-1])
        elif op == "OP_DROP":
            st.pop()
        elif op == "OP_NIP":
            del st[-2]
        elif op == "OP_OVER":
            st.append(st[-2])
        elif op == "OP_SWAP":
            st[-1], st[-2] = st[-2], st[-1]
        elif op == "OP_ROT":
            st.append(st.pop(-3))
        elif op == "OP_TUCK":
            st.insert(-2, st[-1])
        elif op == "OP_2DUP":
            st.extend(st[-2:])
        elif op == "OP_3DUP":
            st.extend(st[-3:])
        elif op == "OP_2DROP":
            st.pop(); st.pop()
        elif op == "OP_2OVER":
            st.extend(st[-4:-2])
        elif op == "OP_2ROT":
            a = st[-6:-4]
            del st[-6:-4]
            st.extend(a)
        elif op == "OP_2SWAP":
            a = st[-4:-2]
            del st[-4:-2]
            st.extend(a)

    def s_alt(self):
        if self.alt and self.r.chance(50):
            self.emit("OP_FROMALTSTACK")
            self.st.append(self.alt.pop())
        else:
            if not self.st:
                self.push_small()
            self.emit("OP_TOALTSTACK")
            self.alt.append(self.st.pop())
        self.features.add("alt")

    def s_hash(self):
        if not self.st:
            self.push_small()
        self.emit(self.r.choice(HASHES))
        self.st[-1] = "d"

    def s_equal(self):
        if len(self.st) < 1:
            self.push_small()
        if self.r.chance(50):
            self.emit("OP_DUP", "OP_EQUALVERIFY")
            self.st.pop()
        else:
            if len(self.st) < 2:
                self.push_small()
            self.emit("OP_EQUAL")
            self.st.pop()
            self.st[-1] = "n"

    def s_verify(self):
        self.emit(self.r.range(1, 16), "OP_VERIFY")

    def s_nop(self):
        if "DISCOURAGE_UPGRADABLE_NOPS" in self.flags_off and self.r.chance(60):
            self.emit(self.r.choice(NOPS_DISCOURAGED))
        else:
            self.emit("OP_NOP")

    def s_pick(self):
        if not self.st:
            self.push_small()
        n = self.r.below(len(self.st))
        op = self.r.choice(["OP_PICK", "OP_ROLL"])
        self.emit(n, op)
        if op == "OP_PICK":
            self.st.append(self.st[-1 - n])
        else:
            self.st.append(self.st.pop(-1 - n))

    def s_size(self):
        if not self.st:
            self.push_small()
        self.emit("OP_SIZE")
        self.st.append("n")

    def s_depth(self):
        self.emit("OP_DEPTH")
        self.st.append("n")

    def s_codesep(self):
        self.emit("OP_CODESEPARATOR")
        self.features.add("codesep")

    def s_checksig(self):
        if self.r.chance(12):
            # a key of the pretend list whose signature was re-assigned to another key: a mismatch, reported as such
            self.emit(PRETEND_SIG, PRETEND_KEY3, "OP_CHECKSIG")
            self.st.append("n")
            self.features.add("sig")
            return
        self.emit(PRETEND_SIG, PRETEND_KEY, self.r.choice(["OP_CHECKSIG", "OP_CHECKSIG", "OP_CHECKSIGVERIFY"]))
        if self.toks[-1] == "OP_CHECKSIG":
            self.st.append("n")
        self.features.add("sig")

    def s_multisig(self):
        self.emit(0, PRETEND_SIG, 1, PRETEND_KEY, PRETEND_KEY2, 2, "OP_CHECKMULTISIG")
        self.st.append("n")
        self.nonpush += 2           # CHECKMULTISIG counts its keys
        self.features.add("sig")

    def s_disabled(self):
        r = self.r
        op = r.choice(["OP_CAT", "OP_SUBSTR", "OP_LEFT", "OP_RIGHT", "OP_INVERT", "OP_AND", "OP_OR", "OP_XOR", "OP_2MUL",
                       "OP_MUL", "OP_DIV", "OP_MOD", "OP_LSHIFT", "OP_RSHIFT"])
        self.features.add("disabled")
        if op == "OP_CAT" and r.chance(12):
            # repeated doubling: the one way a stack item can grow far beyond the push limit
            self.emit(r.bytes(r.range(1, 3)))
            for _ in range(r.choice([9, 12, 15, 16, 17])):
                self.emit("OP_DUP", "OP_CAT")
            self.st.append("d")
            self.features.add("huge-item")
            return
        if op == "OP_CAT":
            self.emit(r.bytes(r.range(1, 20)), r.bytes(r.range(1, 20)), op)
            self.st.append("d")
        elif op == "OP_SUBSTR":
            self.emit(r.bytes(10), r.range(0, 4), r.range(0, 5), op)
            self.st.append("d")
        elif op in ("OP_LEFT", "OP_RIGHT"):
            self.emit(r.bytes(10), r.range(0, 10), op)
            self.st.append("d")
        elif op == "OP_INVERT":
            self.emit(r.bytes(r.range(1, 8)), op)
            self.st.append("d")
        elif op in ("OP_AND", "OP_OR", "OP_XOR"):
            n = r.range(1, 8)
            self.emit(r.bytes(n), r.bytes(n), op)
            self.st.append("d")
        elif op == "OP_2MUL":
            self.emit(r.range(0, 1000), op)
            self.st.append("n")
        elif op in ("OP_MUL",):
            self.emit(r.range(-1000, 1000), r.range(-1000, 1000), op)
            self.st.append("n")
        elif op in ("OP_DIV", "OP_MOD"):
            self.emit(r.range(-100000, 100000), r.choice([1, 2, 3, 7, -5, 1000]), op)
            self.st.append("n")
        else:
            self.emit(r.range(0, 1000), r.range(0, 8), op)
            self.st.append("n")

    def odd_push(self):
        """push forms a compiler would not emit: explicit PUSHDATA1/2/4 (also with zero length), boundary lengths"""
        r = self.r
        ln = r.choice([0, 1, 2, 75, 76, 77, 255, 256, 257, 519, 520])
        data = r.bytes(ln)
        form = r.weighted([(3, 0x4c), (3, 0x4d), (2, 0x4e), (3, 0)])
        if form == 0x4c and ln <= 255:
            raw = bytes([0x4c, ln]) + data
        elif form == 0x4d:
            raw = bytes([0x4d, ln & 0xff, ln >> 8]) + data
        elif form == 0x4e:
            raw = bytes([0x4e]) + ln.to_bytes(4, "little") + data
        else:
            raw = S.push(data)
        return "raw:" + raw.hex()

    def s_oddpush(self):
        self.emit(self.odd_push())
        self.st.append("d")
        self.features.add("oddpush")

    def dead_code(self, n):
        """tokens for a branch that is not executed: anything that decodes,
        except ops that fail even when skipped"""
        r = self.r
        out = []
        for _ in range(n):
            if r.chance(12):
                out.append(self.odd_push())
                continue
            k = r.below(6)
            if k == 0:
                out.append(r.range(-5, 300))
            elif k == 1:
                out.append(r.bytes(r.range(5, 30)))
            elif k == 2:
                out.append(r.choice(BINARY + UNARY + HASHES))
            elif k == 3:
                out.append(r.choice(["OP_DROP", "OP_DUP", "OP_SWAP", "OP_TOALTSTACK", "OP_FROMALTSTACK", "OP_VERIFY", "OP_RETURN",
                                     "OP_CHECKSIG", "OP_RESERVED", "OP_VER", "OP_RESERVED1"]))
            elif k == 4 and r.chance(40):
                out += ["OP_IF"] + self.dead_code(r.below(3)) + (["OP_ELSE"] + self.dead_code(r.below(2)) if r.chance(50) else []) + ["OP_ENDIF"]
            else:
                out.append("OP_NOP")
        return out

    def s_if(self):
        r = self.r
        if self.if_depth >= 3:
            return self.s_push()
        cond = r.chance(60)
        op = r.choice(["OP_IF", "OP_IF", "OP_NOTIF"])
        taken_first = cond if op != "OP_NOTIF" else not cond
        self.emit(1 if cond else 0, op)
        self.features.add("if")
        self.if_depth += 1
        has_else = r.chance(60)

        def live():
            for _ in range(r.range(0, 4)):
                if self.budget_left():
                    self.snippet()

        def dead():
            for t in self.dead_code(r.range(0, 4)):
                self.emit(t)

        if taken_first:
            live()
        else:
            dead()
        if has_else:
            self.emit("OP_ELSE")
            if taken_first:
                dead()
            else:
                live()
            if r.chance(15):
                # a second ELSE toggles again (legal)
                self.emit("OP_ELSE")
                if taken_first:
                    live()
                else:
                    dead()
        self.emit("OP_ENDIF")
        self.if_depth -= 1

    def budget_left(self):
        return self.nonpush < self.max_ops and len(self.toks) < 4 * self.max_ops + 20

    def build(self, n_snippets):
        for _ in range(n_snippets):
            if not self.budget_left():
                break
            self.snippet()
        return self.toks


# ---- operations used as injected step faults -------------------------------
def failing_op(rng, st_depth_hint=0):
    """tokens whose execution returns a script error"""
    return rng.choice([
        ["OP_RETURN"],
        [0, "OP_VERIFY"],
        [1, 2, "OP_EQUALVERIFY"],
        ["OP_RESERVED"],
        ["OP_VER"],
        ["OP_ELSE"],            # unbalanced
        ["OP_ENDIF"],
        ["OP_CAT"],             # disabled (without -z)
        ["OP_NOP1"],            # discouraged upgradable NOP under standard flags
        ["OP_FROMALTSTACK"] if st_depth_hint == 0 else ["OP_RETURN"],
        [1, 2, "OP_NUMEQUALVERIFY"],
        ["OP_VERIF"],
        # a conditional that is never closed: every operation succeeds, the script fails when it ends
        [1, "OP_IF"],
        [0, "OP_NOTIF"],
        [0, "OP_IF", "OP_ELSE"],
        [1, "OP_IF", 0, "OP_IF"],
    ])


def edge_op(rng):
    """operations of the --allow-disabled-opcodes set with operands at the edges of their domain (zero divisors,
    shifts by 0 / 63 / 64 / negative counts, slices at and beyond the ends): each must end in a result or a script error"""
    x = rng.choice([0, 1, -1, 7, -7, 255, 2147483647, -2147483647])
    return rng.choice([
        [x, 0, "OP_DIV"], [x, 0, "OP_MOD"], [0, 0, "OP_DIV"], [x, -1, "OP_DIV"], [x, -1, "OP_MOD"], [x, 1, "OP_MOD"],
        [x, "OP_2DIV"], [x, "OP_2MUL"], [x, x, "OP_MUL"],
        [x, 0, "OP_LSHIFT"], [x, 63, "OP_LSHIFT"], [x, 64, "OP_LSHIFT"], [x, -1, "OP_LSHIFT"], [x, 2147483647, "OP_LSHIFT"],
        [x, 0, "OP_RSHIFT"], [x, 63, "OP_RSHIFT"], [x, 64, "OP_RSHIFT"], [x, -1, "OP_RSHIFT"],
        [b"", b"", "OP_CAT"], [b"", "OP_INVERT"], [b"\x01", b"", "OP_AND"], [b"", b"\x01\x02", "OP_XOR"],
        [b"abcdef", 0, 0, "OP_SUBSTR"], [b"abcdef", 6, 1, "OP_SUBSTR"], [b"abcdef", -1, 2, "OP_SUBSTR"], [b"abcdef", 2, -1, "OP_SUBSTR"], [b"", 0, 0, "OP_SUBSTR"],
        [b"abcdef", 7, "OP_LEFT"], [b"abcdef", -1, "OP_LEFT"], [b"", 0, "OP_LEFT"], [b"abcdef", 7, "OP_RIGHT"], [b"abcdef", -1, "OP_RIGHT"], [b"", 0, "OP_RIGHT"],
    ])


def throwing_op(rng):
    """tokens whose execution raises a C++ exception after partial mutation"""
    return rng.choice([
        [bytes.fromhex("0102030405"), "OP_1ADD"],                 # scriptnum overflow
        [1, bytes.fromhex("0102030405"), "OP_ADD"],
        [bytes.fromhex("0100"), "OP_NOT"],                        # non-minimal under MINIMALDATA: pushes ok, NOT throws
        [bytes.fromhex("0102030405"), 0, 5, "OP_WITHIN"],
        [5, bytes.fromhex("ffffffffff"), "OP_PICK"],
    ])
