"""Reference runs: the same world driven by the canonical schedule
(`step` until done or the first failure, observers after every step)."""
import re

from . import proto, session

_loaded_re = re.compile(r"(\d+) op script loaded")


class Ref:
    """states[k] = (black-box, white-box) after k accepted steps, k = 0..L
    replies[k] = reply of the k-th step command (1-based; replies[0] unused)
    L = accepted steps before the first failure / refusal
    fail = None | (index, text): the step that failed (index = L+1)
    finished = True if the session reached `done` (step L+1 is refused)"""

    def __init__(self):
        self.states = []
        self.replies = [None]
        self.echo = [None]
        self.probes = []
        self.L = 0
        self.fail = None
        self.finished = False
        self.count = None
        self.run = None
        self.started = False
        self.complete = False       # the reference reached its end (done) or its first failure
        self.crashed = None         # the reference process died / its event log overflowed: (kind) - C15 owns that verdict
        self.startup_err = ""
        self.cmds = []


def listing_count(run):
    m = _loaded_re.search(run.segs[0].err.decode(proto.L1))
    return int(m.group(1)) if m else None


def reference(ctx, scn, ev, max_steps=None, observe=None):
    """Runs the canonical schedule.  Returns Ref (ref.started False if the tool
    refused the input before the first prompt)."""
    ref = Ref()
    if scn.get("argv_style") is not None:
        scn = dict(scn)
        scn.pop("argv_style")          # the reference gets the plain spelling of the command line
    if observe is None:
        observe = scn.get("observe", True)
    if max_steps is None:
        # one cheap run to learn the length of the listing
        w0 = session.build_world(scn, sched=[], faults=False)
        r0 = ctx.run(w0)
        ev.hashes.append(r0.hash())
        if len(r0.segs) < 2:
            ref.run = r0
            ref.startup_err = r0.segs[0].err.decode(proto.L1)
            return ref
        c = listing_count(r0)
        if c is None and r0.segs[1].probe:
            c = int(r0.segs[1].probe.get("count", "0"))
        if c is None:
            # --quiet and no white-box probe: the length of the listing is not announced; use a bound
            if scn.get("script") is not None:
                from . import script as S
                try:
                    c = len(S.decode(bytes.fromhex(scn["script"]))) + 2
                except ValueError:
                    c = len(scn["script"]) // 2 + 2
            else:
                c = 400
        max_steps = c + 2
    items = [["sync"]] + [["step"]] * max_steps
    w = session.build_world(scn, sched=items, observe=observe, faults=False)
    r = ctx.run(w)
    ev.hashes.append(r.hash())
    ref.run = r
    if len(r.segs) < 2:
        ref.startup_err = r.segs[0].err.decode(proto.L1)
        return ref
    ref.started = True
    ref.count = listing_count(r)
    cmds = session.parse_session(w, r, items)
    ref.cmds = cmds
    ref.states.append((session.bb_state(cmds[0]), session.wb_state(cmds[0].post)))
    ref.probes.append(cmds[0].post)
    for c in cmds[1:]:
        if c.reply is None:
            break       # the run ended early (crash): whatever was reached is the reference
        if c.reply[0] == "crashed":
            ref.crashed = c.reply[1]
            break
        ref.replies.append(c.reply)
        ref.echo.append(c.echo)
        if c.reply[0] == "accepted":
            ref.states.append((session.bb_state(c), session.wb_state(c.post)))
            ref.probes.append(c.post)
            ref.L += 1
        elif c.reply[0] == "refused":
            ref.finished = True
            break
        else:
            ref.fail = (ref.L + 1, c.reply[1])
            break
    if not r.normal() and ref.crashed is None:
        ref.crashed = r.classify()[0]
    ref.complete = (ref.finished or ref.fail is not None) and ref.crashed is None
    return ref
