"""secp256k1 in plain integers: ECDSA (DER, low-S) and BIP340 Schnorr signing.

Workload only (DESIGN 3.6): it produces spends whose signature operations
succeed, so that sessions run deep.  It is never an oracle; if it were wrong,
sessions would fail early, which the probe 'signature op succeeded' shows.
"""
import hashlib

P = 0xFFFFFFFFFFFFFFFFFFFFFFFFFFFFFFFFFFFFFFFFFFFFFFFFFFFFFFFEFFFFFC2F
N = 0xFFFFFFFFFFFFFFFFFFFFFFFFFFFFFFFEBAAEDCE6AF48A03BBFD25E8CD0364141
G = (0x79BE667EF9DCBBAC55A06295CE870B07029BFCDB2DCE28D959F2815B16F81798,
     0x483ADA7726A3C4655DA4FBFC0E1108A8FD17B448A68554199C47D08FFB10D4B8)


def _jadd(p, q):
    if p is None:
        return q
    if q is None:
        return p
    x1, y1, z1 = p
    x2, y2, z2 = q
    z1z1 = z1 * z1 % P
    z2z2 = z2 * z2 % P
    u1 = x1 * z2z2 % P
    u2 = x2 * z1z1 % P
    s1 = y1 * z2 * z2z2 % P
    s2 = y2 * z1 * z1z1 % P
    if u1 == u2:
        if s1 != s2:
            return None
        return _jdbl(p)
    h = (u2 - u1) % P
    r = (s2 - s1) % P
    h2 = h * h % P
    h3 = h * h2 % P
    u1h2 = u1 * h2 % P
    x3 = (r * r - h3 - 2 * u1h2) % P
    y3 = (r * (u1h2 - x3) - s1 * h3) % P
    z3 = h * z1 * z2 % P
    return (x3, y3, z3)


def _jdbl(p):
    if p is None:
        return None
    x, y, z = p
    if y == 0:
        return None
    ysq = y * y % P
    s = 4 * x * ysq % P
    m = 3 * x * x % P
    x3 = (m * m - 2 * s) % P
    y3 = (m * (s - x3) - 8 * ysq * ysq) % P
    z3 = 2 * y * z % P
    return (x3, y3, z3)


def _affine(p):
    if p is None:
        return None
    x, y, z = p
    zi = pow(z, P - 2, P)
    zi2 = zi * zi % P
    return (x * zi2 % P, y * zi2 * zi % P)


def mul(k, pt=G):
    k %= N
    r = None
    a = (pt[0], pt[1], 1)
    while k:
        if k & 1:
            r = _jadd(r, a)
        a = _jdbl(a)
        k >>= 1
    return _affine(r)


def add(p, q):
    a = None if p is None else (p[0], p[1], 1)
    b = None if q is None else (q[0], q[1], 1)
    return _affine(_jadd(a, b))


def lift_x(x):
    y2 = (pow(x, 3, P) + 7) % P
    y = pow(y2, (P + 1) // 4, P)
    if y * y % P != y2:
        return None
    return (x, y if y % 2 == 0 else P - y)


def b32(i):
    return i.to_bytes(32, "big")


def pub_compressed(d):
    x, y = mul(d)
    return bytes([2 + (y & 1)]) + b32(x)


def pub_xonly(d):
    return b32(mul(d)[0])


def tagged(tag, msg):
    t = hashlib.sha256(tag.encode()).digest()
    return hashlib.sha256(t + t + msg).digest()


def _der_int(i):
    b = i.to_bytes(33, "big").lstrip(b"\0")
    if not b or b[0] & 0x80:
        b = b"\0" + b
    return b"\x02" + bytes([len(b)]) + b


HIGH_S = False          # spend.make switches this for spends signed the pre-BIP62 way (valid; refused only by the LOW_S policy flag)


def ecdsa_sign(d, msg32, hashtype=1):
    z = int.from_bytes(msg32, "big")
    k = int.from_bytes(hashlib.sha256(b32(d) + msg32 + b"btcsim-nonce").digest(), "big") % N or 1
    r = mul(k)[0] % N
    s = pow(k, N - 2, N) * (z + r * d) % N
    if (s > N // 2) != HIGH_S:
        s = N - s           # low S as every modern signer emits it - or, on request, the other (equally valid) one
    body = _der_int(r) + _der_int(s)
    return b"\x30" + bytes([len(body)]) + body + bytes([hashtype])


def schnorr_sign(d0, msg32, aux=b"\0" * 32):
    px, py = mul(d0)
    d = d0 if py % 2 == 0 else N - d0
    t = bytes(a ^ b for a, b in zip(b32(d), tagged("BIP0340/aux", aux)))
    k0 = int.from_bytes(tagged("BIP0340/nonce", t + b32(px) + msg32), "big") % N or 1
    rx, ry = mul(k0)
    k = k0 if ry % 2 == 0 else N - k0
    e = int.from_bytes(tagged("BIP0340/challenge", b32(rx) + b32(px) + msg32), "big") % N
    return b32(rx) + b32((k + e * d) % N)


def taproot_tweak(internal_d, merkle_root):
    """-> (output key x-only bytes, parity of the output key, tweaked secret for key-path signing)"""
    px, py = mul(internal_d)
    d = internal_d if py % 2 == 0 else N - internal_d
    t = int.from_bytes(tagged("TapTweak", b32(px) + (merkle_root or b"")), "big") % N
    q = add(lift_x(px), mul(t))
    return b32(q[0]), q[1] & 1, (d + t) % N


NUMS_H = bytes.fromhex("50929b74c1a04954b78b4b6035e97a5e078a5a0f28ec96d547bfee9ace803ac0")   # BIP341 "nothing up my sleeve" point


def taproot_tweak_pub(internal_x, merkle_root):
    """output key for an x-only internal key whose secret is unknown (script path only) -> (x-only bytes, parity)"""
    px = int.from_bytes(internal_x, "big")
    t = int.from_bytes(tagged("TapTweak", b32(px) + (merkle_root or b"")), "big") % N
    q = add(lift_x(px), mul(t))
    return b32(q[0]), q[1] & 1
