"""C04 - rewind exactly undoes steps.

Refinement of the history-ful session against its history-free twin: after
every command of a seeded {step, rewind} walk the state equals the reference
state after the *net* number of steps, and continuing to the end gives the
reference's remaining states and outcome.  A refused rewind changes nothing.
"""
import re

from . import gen as G, proto, ref as refmod, script as S, session, workloads
from .core import Eval

PROP = "C04"
LEVEL = "exploration"
RULE = ("case = one generated btcdeb session (script or spend, options) x one seeded walk over {step, rewind, blank-repeat, comment-repeat} "
        "run through the real main() and kerl command table, plus its reference run; non-trivial = at least one rewind was accepted and the "
        "session was continued to its end; distinct = distinct tuple of state digests (white-box probe after every command) along the walk")
ASSUMPTIONS = [
    "acceptance of step/rewind is read from the tool's own replies (DESIGN Appendix A.1)",
    "the reference is the same tree without rewinds: a defect present identically in both runs is invisible (C01 territory)",
    "libsecp256k1 runs unsanitised; GNU readline is replaced by the simulated user",
]
RERUN_PLAIN_AFTER_SANITIZER = True      # see core.evaluate_case
TIERS = {
    "quick": {"cases": 8000, "flavours": ("asan",), "cap_s": 600},
    "thorough": {"cases": 250000, "flavours": ("asan",), "cap_s": 3 * 3600},
}
SHRINK_LISTS = ["walk", "stack", "faults"]


def gen_walk(rng, n):
    walk = []
    mode = rng.weighted([(4, "mixed"), (2, "deep-then-back"), (1, "sawtooth"), (1, "all-back")])
    for i in range(n):
        if mode == "mixed":
            m = rng.weighted([(52, "step"), (31, "rewind"), (7, "blank"), (3, "comment"), (7, "noise")])
        elif mode == "deep-then-back":
            m = "step" if i < n * 2 // 3 else rng.weighted([(85, "rewind"), (10, "step"), (5, "blank")])
        elif mode == "sawtooth":
            m = "step" if (i % 5) < 3 else "rewind"
        else:
            m = "step" if i < n // 2 else "rewind"
        if m == "noise":
            # commands that must leave the execution state alone, whatever they print or reject
            walk.append(rng.choice([["print"], ["stack"], ["altstack"], ["vfexec"], ["tf", "echo", "1"], ["tf", "int", "0x0102030405"], ["unknown", "frobnicate"],
                                    ["exec"], ["exec", "OP_NOSUCHOP"], ["exec", "OP_1", "OP_ADDD"], ["exec", "7", "OP_TOALTSTACK", "0x08"], ["help"], ["tf"]]))
        else:
            walk.append([m])
    return walk


# ---- complete history trees over short sessions (DESIGN 4, C04): every word of {step, rewind}^D;
# the oracle checks after every command, so every prefix of every word is covered
def _tree_sessions():
    hx = workloads.hexs
    P = workloads.pretend_opt()
    out = [
        {"script": hx(S.asm([1, "OP_IF", 2, "OP_ENDIF"]))},
        {"script": hx(S.asm([0, "OP_IF", 1, "OP_ELSE", 2, "OP_ENDIF"]))},
        {"script": hx(S.asm([1, "OP_IF", 0, "OP_IF", "OP_ENDIF", "OP_ENDIF"]))},
        {"script": hx(S.asm([0, "OP_NOTIF", 5, "OP_ENDIF", "OP_DEPTH"]))},
        {"script": hx(S.asm([3, "OP_TOALTSTACK", 4, "OP_FROMALTSTACK", "OP_ADD"]))},
        {"script": hx(S.asm(["OP_CODESEPARATOR", 1, "OP_CODESEPARATOR", 2])), "opts": ["--modify-flags=-CONST_SCRIPTCODE"]},
        {"script": hx(S.asm([G.PRETEND_SIG, G.PRETEND_KEY, "OP_CHECKSIG", "OP_VERIFY", 1])), "opts": [P]},
        {"script": hx(S.asm([1, 2, "OP_ADD", 3, "OP_EQUAL"])), "stack": ["05"]},
        {"script": hx(S.asm([2, "OP_2MUL", 4, "OP_EQUALVERIFY", 1])), "opts": ["-z"]},
        {"script": "", "stack": ["01"]},
        {"script": hx(S.asm([1, "OP_IF"]))},                       # ends with an open conditional
        {"script": hx(S.asm([1, "OP_VERIFY", 0, "OP_VERIFY", 1]))},    # fails at the 4th operation
        {"script": None, "spend": {"dataset": "p2pkh"}},
        {"script": None, "spend": {"dataset": "p2sh-p2wpkh"}},
        {"script": None, "spend": {"dataset": "p2ts"}},
        {"script": None, "spend": {"dataset": "p2sh-multisig-2-of-2"}},
    ]
    for o in out:
        o.setdefault("opts", [])
        o.setdefault("stack", [])
        o.setdefault("spend", None)
        o.update({"observe": True, "tty": [1, 1], "env": {}, "family": "tree"})
    return out


TREE_DEPTH = {"quick": 5, "thorough": 10}


def tree_size(tier):
    return len(_tree_sessions()) * (1 << TREE_DEPTH[tier])


def tree_scenario(tier, idx):
    d = TREE_DEPTH[tier]
    sessions = _tree_sessions()
    base = dict(sessions[idx >> d])
    word = idx & ((1 << d) - 1)
    base["walk"] = [["rewind"] if (word >> b) & 1 else ["step"] for b in range(d)]
    # short sessions: let the walk start from every depth by a prefix of plain steps
    base["prefix_steps"] = 0
    base["regime"] = "clean"
    base["faults"] = []
    base["tree"] = [idx >> d, word]
    return base


# ---- sessions of thousands of operations, unwound (almost) completely: a bounded or wrapping history shows here.
# They are spread over the first chunks of the sweep so that they run in parallel from the start.
DEEP = {"quick": 5, "thorough": 60}


def deep_index(tier, idx):
    k = idx - tree_size(tier)
    return k // 25 if (k >= 0 and k % 25 == 0 and k // 25 < DEEP[tier]) else None


def deep_case(rng):
    scn = workloads.deep_scenario(rng)
    d = scn["deep_depth"]
    scn["prefix_steps"] = d
    r = d - rng.range(0, 30) if rng.chance(70) else rng.range(1, 8)
    scn["walk"] = [["rewind"]] * max(1, r) + [["step"]] * rng.range(0, 5) + gen_walk(rng, rng.range(0, 6))
    scn["tail_cap"] = 30
    scn["regime"] = "clean"
    scn["faults"] = []
    return scn


def gen(rng, tier, idx):
    if idx < tree_size(tier):
        return tree_scenario(tier, idx)
    if deep_index(tier, idx) is not None:
        return deep_case(rng)
    scn = workloads.session_scenario(rng, purpose="rewind")
    n = rng.weighted([(3, rng.range(1, 8)), (5, rng.range(8, 30)), (2, rng.range(30, 60))])
    scn["walk"] = gen_walk(rng, n)
    # the walk starts after a seeded fraction of the session has been stepped through, so that rewinds also
    # happen deep inside long sessions (near the operation limit, in the last section of a spend, on large items)
    scn["prefix_permille"] = rng.weighted([(4, 0), (3, rng.below(1001)), (2, rng.range(700, 1000)), (1, 1000)])
    if rng.chance(15):
        # ... or at an absolute depth around a round number (where a sized buffer or counter would wrap)
        scn["prefix_steps"] = rng.choice([31, 32, 33, 63, 64, 127, 128, 199, 200, 201, 255, 256, 257, 511, 512, 999, 1000, 1001, 1023, 1024, 1025]) + rng.range(-1, 2)
    if "huge-item" in (scn.get("features") or []) and rng.chance(60):
        # what makes this session special develops late (an item doubling past 64 KiB): walk around its end
        scn["prefix_permille"] = rng.range(850, 1000)
    if scn.get("family") == "long-listing" and len(scn.get("script") or "") >= 2 * 990 and rng.chance(60):
        # sessions long enough to get there: start the walk right at a four-digit depth
        scn["prefix_steps"] = rng.choice([998, 999, 1000, 1001, 1002])
        scn["walk"] = [["rewind"]] * rng.range(1, 3) + scn["walk"]
    scn["regime"] = "clean" if rng.chance(80) else "fault"
    # the black-box observers quadruple the number of delivered lines; half of the cases rely on the white-box probe alone
    scn["observe"] = bool(scn.get("observe", True)) and rng.chance(50)
    scn["faults"] = []
    if scn["regime"] == "fault":
        k = rng.weighted([(3, "SINK_ERR"), (3, "HIST"), (4, "STEP")])
        if k == "SINK_ERR":
            scn["faults"].append({"kind": "SINK_ERR", "stream": 1, "after": rng.range(0, 3000), "errno": rng.choice([32, 28, 5])})
        elif k == "HIST":
            scn["faults"].append(rng.choice([
                {"kind": "HIST_WRITE", "after": rng.range(0, 40), "errno": 28},
                {"kind": "HIST_CLOSE", "errno": 5},
                {"kind": "HIST_ABSENT"},
                {"kind": "HIST_CONTENT", "content": "step\nrewind \\\"x\nprint\\n\n"},
            ]))
        else:
            scn["faults"].append({"kind": "STEP_FAIL"})      # the walk may step into the reference's failing op
    return scn


def plan(scn, ref, extra_tail=True):
    """interpret the walk modulo what is enabled -> concrete schedule items.
    In the clean regime a step is never delivered where the reference failed."""
    L = ref.L
    allow_fail = any(f["kind"] in ("STEP_FAIL", "STEP_THROW") for f in scn.get("faults", []))
    items = [["sync"]]
    net = 0
    pre = (L * scn.get("prefix_permille", 0)) // 1000
    if scn.get("prefix_steps") is not None and 0 <= scn["prefix_steps"] <= L:
        pre = scn["prefix_steps"]
    for _ in range(pre):
        items.append(["step"])
        net += 1
    for mv in scn["walk"]:
        k = mv[0]
        rendered = [k]
        if k in ("blank", "comment"):
            # repeats the previously delivered non-blank command
            k = session.effective_kind(items + [mv], len(items))
            rendered = ["blank"] if mv[0] == "blank" else ["comment", " again"]
        if k == "step":
            if net >= L and not allow_fail and not ref.finished:
                continue        # the next step is the reference's failing one
            # (at the end of a finished script the step is delivered: it must be refused and change nothing)
            net = min(net + 1, L)
        elif k == "rewind":
            net = predict_rewind(ref, net)
        elif mv[0] in ("print", "stack", "altstack", "vfexec", "tf", "unknown", "exec", "help", "raw"):
            rendered = list(mv)         # a state-neutral command, delivered as it is
        else:
            continue
        items.append(rendered)
    if extra_tail:
        items += [["step"]] * min(L + 2, scn.get("tail_cap") or (L + 2))
    return items


def predict_rewind(ref, net):
    """planning only (the oracle reads acceptance from the replies): a rewind is
    expected to be refused where the reference shows the position at the start of
    the current script"""
    if net <= 0:
        return 0
    p = ref.probes[net] if net < len(ref.probes) else None
    if p and p.get("pc") == "0" and p.get("done") == "0":
        return net
    return net - 1


def first_diff(prefix, a, b):
    if a is None or b is None:
        return None
    for name, x, y in zip(("stack", "altstack", "vfexec", "listing"), a, b):
        if x != y:
            return "%s:%s" % (prefix, name)
    return None


def evaluate(ctx, scn):
    ev = Eval()
    ref = refmod.reference(ctx, scn, ev)
    c15_watch(ev, ref.run, scn)
    if not ref.started:
        ev.counters["ref_not_started"] += 1
        return ev
    if not ref.complete:
        # the reference run neither finished nor failed (it crashed or was cut): nothing to refine against
        ev.counters["ref_incomplete"] += 1
        return ev
    clean = scn.get("regime", "clean") == "clean"
    sk = scn.get("spend_kind")
    if sk and not sk.startswith("nosig-") and scn.get("spend") and "dataset" not in scn["spend"]:
        # the harness's own signer is workload, not oracle: count how its spends end, so that a signer that
        # went wrong (sessions failing at the first signature check) shows in the evidence
        ev.counters["probe:signed_spend_ran_%s" % ("valid" if (ref.finished and not ref.fail) else "to_an_error")] += 1
    items = plan(scn, ref)
    w = session.build_world(scn, sched=items)
    run = ctx.run(w)
    ev.hashes.append(run.hash())
    c15_watch(ev, run, scn)
    for s in run.segs:
        for c in s.seam:
            if c.startswith(("sinkfail", "writefail", "closefail", "readfail")):
                ev.counters["fault:" + c.split()[0]] += 1
    if run.classify()[0] == "overflow":
        ev.counters["inconclusive_log_overflow"] += 1      # the event log of this session did not fit: nothing can be said
        return ev
    cmds = session.parse_session(w, run, items)
    net = 0
    tainted = False          # a step of this history has failed: the statement excludes it from clause 1
    accepted_rewinds = 0
    prev_bb = None
    prev_wb = None
    walk_len = len(items) - min(ref.L + 2, scn.get("tail_cap") or (ref.L + 2))
    trace = []
    # with a failing stdout the observers' output is cut: the black-box layer is blind, the white-box one is not
    sink_fault = any(f["kind"] == "SINK_ERR" for f in scn.get("faults", []))
    for ci, c in enumerate(cmds):
        if c.reply is None:
            break
        wb = session.wb_state(c.post)
        bb = None if sink_fault else session.bb_state(c)
        kind = c.kind
        if ci == 0:
            prev_bb, prev_wb = bb, wb
            continue
        rep = c.reply[0]
        in_tail = ci >= walk_len
        if kind == "step":
            if rep == "accepted":
                net += 1
            elif rep == "failed":
                if not tainted:
                    # in either regime the failure must be the reference's failure at the same place
                    if ref.fail and net + 1 == ref.fail[0]:
                        if c.reply[1] != ref.fail[1] and clean:
                            ev.add(PROP, "continuation-outcome", "error-text", "step %d fails with %r, the rewind-free session fails with %r" % (net + 1, c.reply[1], ref.fail[1]))
                    elif clean:
                        ev.add(PROP, "continuation-outcome", "unexpected-failure", "after the walk, step %d fails with %r; the rewind-free session %s"
                               % (net + 1, c.reply[1], "succeeds there" if net + 1 <= ref.L else "is finished"))
                tainted = True
                ev.counters["probe:step_failed_in_history"] += 1
            elif rep == "refused":
                if clean and not tainted and not (ref.finished and net == ref.L):
                    ev.add(PROP, "continuation-outcome", "premature-end", "step refused as 'at end of script' after net %d steps; the rewind-free session has %d" % (net, ref.L))
        elif kind == "rewind":
            if rep == "accepted":
                net -= 1
                accepted_rewinds += 1
                if c.pre:
                    classify_rewind_probe(ev, c.pre, ref, net + 1, tainted)
            elif rep == "crashed":
                # the process died while performing the rewind (the rewind-free session of the same input ran normally):
                # whatever else that is (C15), nothing was restored and the session cannot be continued to its end
                how = run.classify()
                if clean and not tainted and ref.run.normal() and how[0] in ("sanitizer", "signal", "abort", "assert", "terminate"):
                    ev.add(PROP, "rewind-died", how[0], "the session died (%s) while performing a rewind after net %d steps and %d accepted rewinds; "
                           "the state before the undone step was not restored" % (how[1][:80], net, accepted_rewinds))
                tainted = True
            else:
                ev.counters["probe:rewind_refused"] += 1
                if c.pre and c.pre.get("curr_op_seq", "0") != "0":
                    ev.counters["probe:rewind_refused_at_phase_boundary"] += 1
                # clause 2: refused means untouched (both regimes)
                d = session.wb_diff(prev_wb, wb) if (prev_wb is not None and wb is not None) else []
                if d:
                    ev.add(PROP, "refused-rewind-changes-state", d[0].split(":")[0], "a refused rewind (%s) changed %s" % (c.reply[1], "; ".join(d[:3])))
                elif bb is not None and prev_bb is not None:
                    fd = first_diff("bb", prev_bb, bb)
                    if fd:
                        ev.add(PROP, "refused-rewind-changes-state", fd, "a refused rewind changed the observable %s" % fd)
        if kind not in ("step", "rewind") and ci > 0 and c.item[0] != "sync":
            ev.counters["probe:neutral_command_in_history"] += 1
            if rep == "crashed":
                tainted = True
            elif prev_wb is not None and wb is not None and prev_wb != wb:
                d = session.wb_diff(prev_wb, wb)
                ev.add(PROP, "neutral-command-changes-state", d[0].split(":")[0], "`%s` changed the execution state: %s" % (session.render_item(c.item)[:40], "; ".join(d[:3])))
                tainted = True
        if net < 0 and not tainted:
            ev.add(PROP, "state-mismatch", "net-negative", "more rewinds accepted than steps taken")
            tainted = True
        trace.append((kind[0], rep[0], wb))
        # clause 1 / 3: state equality with the fresh session advanced by `net`
        if clean and not tainted and 0 <= net < len(ref.states):
            rbb, rwb = ref.states[net]
            where = "continuation" if in_tail else "state-mismatch"
            if wb is not None and rwb is not None and wb != rwb:
                d = session.wb_diff(rwb, wb)
                ev.add(PROP, where, d[0].split(":")[0],
                       "after %s (net %d steps, %d rewinds so far) the state differs from a fresh session advanced by %d steps: %s" % (kind, net, accepted_rewinds, net, "; ".join(d[:4])))
                tainted = True      # report the first divergence only
            elif bb is not None and rbb is not None and bb != rbb:
                fd = first_diff("bb", rbb, bb) or "bb:unparsable"
                ev.add(PROP, where, fd, "after %s (net %d) the observable %s differs from a fresh session advanced by %d steps" % (kind, net, fd, net))
                tainted = True
        prev_bb = bb
        prev_wb = wb
    # the final outcome of continuing to the end
    if clean and not tainted and run.normal() and not (scn.get("tail_cap") and scn["tail_cap"] < ref.L + 2):
        if ref.finished and net != ref.L:
            ev.add(PROP, "continuation-outcome", "final-net", "session ended after net %d steps, the rewind-free session needs %d" % (net, ref.L))
    ev.nontrivial = accepted_rewinds > 0 and run.normal()
    ev.cov = [(t[0], t[1], t[2]) for t in trace]
    ev.counters["accepted_rewinds"] += accepted_rewinds
    if scn.get("regime") == "fault":
        fault_regime(ctx, scn, items, run, ev)
    return ev


def classify_rewind_probe(ev, pre, ref, k, tainted):
    """rare-condition probes: what kind of step is being undone (k = index of the undone step)"""
    if pre.get("done") == "1":
        ev.counters["probe:rewind_from_done"] += 1
    if tainted:
        ev.counters["probe:rewind_after_failed_step"] += 1
        return
    if k < len(ref.probes) and k >= 1:
        p = ref.probes[k - 1]
        if p:
            big = [int(m) for m in re.findall(r"#(\d+):", (p.get("stack") or "") + (p.get("altstack") or ""))]
            if any(b > 520 for b in big):
                ev.counters["probe:rewind_restores_item>520B"] += 1
            if any(b > 65535 for b in big):
                ev.counters["probe:rewind_restores_item>64KiB"] += 1
        if p and p.get("next") == "op":
            o = int(p.get("next_opcode", -1))
            name = S.NAME.get(o, "")
            if name in ("OP_IF", "OP_NOTIF"):
                ev.counters["probe:rewind_across_IF"] += 1
            elif name == "OP_ELSE":
                ev.counters["probe:rewind_across_ELSE"] += 1
            elif name == "OP_ENDIF":
                ev.counters["probe:rewind_across_ENDIF"] += 1
            elif name == "OP_CODESEPARATOR":
                ev.counters["probe:rewind_across_CODESEPARATOR"] += 1
            elif name in ("OP_CHECKSIG", "OP_CHECKSIGVERIFY", "OP_CHECKMULTISIG", "OP_CHECKMULTISIGVERIFY", "OP_CHECKSIGADD"):
                ev.counters["probe:rewind_across_sigop"] += 1
            elif name in ("OP_TOALTSTACK", "OP_FROMALTSTACK"):
                ev.counters["probe:rewind_across_altstack_op"] += 1
            if int(p.get("nOpCount", 0)) >= 199:
                ev.counters["probe:rewind_with_nOpCount>=199"] += 1
            if p.get("weight_left_init") == "1" and pre.get("weight_left") != p.get("weight_left"):
                ev.counters["probe:rewind_across_budget_change"] += 1
        elif p and p.get("next") in ("spk-switch", "p2sh-switch"):
            ev.counters["probe:rewind_across_phase_switch"] += 1
        elif p and p.get("next") == "commit":
            ev.counters["probe:rewind_in_commitment"] += 1


def fault_regime(ctx, scn, items, run, ev):
    """session state must not depend on whether output or history I/O succeeded"""
    io_faults = [f for f in scn.get("faults", []) if f["kind"].startswith(("SINK", "HIST"))]
    if not io_faults:
        return
    for f in io_faults:
        ev.counters["fault:configured_" + f["kind"]] += 1
    w2 = session.build_world(scn, sched=items, faults=False)
    r2 = ctx.run(w2)
    ev.hashes.append(r2.hash())
    a = [session.wb_state(s.probe) for s in run.segs[1:]]
    b = [session.wb_state(s.probe) for s in r2.segs[1:]]
    n = min(len(a), len(b))
    if run.normal() and r2.normal() and len(a) != len(b):
        ev.add(PROP, "io-fault-changes-session", "length", "the session has %d prompts with the I/O fault and %d without" % (len(a), len(b)))
        return
    for i in range(n):
        if a[i] is not None and b[i] is not None and a[i] != b[i]:
            d = session.wb_diff(b[i], a[i])
            ev.add(PROP, "io-fault-changes-session", d[0].split(":")[0], "with %s the state at prompt %d differs from the fault-free session: %s" % (io_faults[0]["kind"], i, "; ".join(d[:3])))
            return


def shrink_extra(scn, still, budget):
    return workloads.shrink_script(scn, still, budget)


def extra_evidence(counters):
    return {"exhaustive_subspace": True,
            "history_trees": "cases 0..N-1 of every run enumerate every word of {step, rewind}^D over %d short sessions (D = %d quick, %d thorough); every prefix of every word is checked"
                             % (len(_tree_sessions()), TREE_DEPTH["quick"], TREE_DEPTH["thorough"])}


def c15_watch(ev, run, scn):
    """every simulated run is also a C15 run; here it is only counted, the C15
    check owns the verdict"""
    k, d = run.classify()
    ev.counters["term:" + k] += 1
