import importlib
import os
import sys

from . import core

CHECKS = {"C04": "btcsim.c04", "C08": "btcsim.c08", "C12": "btcsim.c12", "C15": "btcsim.c15", "C16": "btcsim.c16"}


def load(prop):
    return importlib.import_module(CHECKS[prop])


def main(argv):
    if not argv:
        sys.stderr.write(__doc__ or "usage: sim <check> [--tier quick|thorough] | sim replay <file>\n")
        return 2
    if argv[0] == "replay":
        import json
        doc = json.load(open(argv[1]))
        return core.replay(argv[1], {doc["property"]: load(doc["property"])})
    prop = argv[0]
    if prop not in CHECKS:
        sys.stderr.write("unknown check %s\n" % prop)
        return 2
    tier = os.environ.get("VERIF_TIER", "quick")
    if "--tier" in argv:
        tier = argv[argv.index("--tier") + 1]
    if tier not in ("quick", "thorough"):
        tier = "quick"
    return core.run_check(load(prop), tier)
