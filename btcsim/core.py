"""Check driver: seeded cases on W workers, shrinking, determinism gate, replay
files, known findings, evidence."""
import collections
import hashlib
import json
import os
import subprocess
import sys
import time
import traceback
from concurrent.futures import ProcessPoolExecutor

from . import build, proto
from .prng import Rng, run_seed

VERIF = build.VERIF
REPLAYS = os.environ.get("BTCSIM_REPLAY_DIR", os.path.join(VERIF, "replays"))
EVIDENCE = os.environ.get("BTCSIM_EVIDENCE_DIR", os.path.join(VERIF, "evidence"))
KNOWN = os.path.join(VERIF, "known_findings.json")


class Violation:
    def __init__(self, prop, clause, site, message, scenario=None):
        self.prop = prop
        self.clause = clause
        self.site = site
        self.message = message
        self.scenario = scenario

    def cls(self):
        return (self.prop, self.clause, self.site)

    def to_json(self):
        return {"property": self.prop, "clause": self.clause, "site": self.site, "message": self.message}


class Eval:
    def __init__(self):
        self.violations = []
        self.hashes = []
        self.cov = []           # hashable keys for distinct-state counting
        self.nontrivial = False
        self.counters = collections.Counter()

    def add(self, prop, clause, site, message):
        self.violations.append(Violation(prop, clause, site, message))

    def classes(self):
        return sorted(set(v.cls() for v in self.violations))


class Ctx:
    """One worker's simulator: zygotes per (flavour, tool)."""

    def __init__(self, flavours=("asan",), builds=None):
        self.builds = dict(builds) if builds else {}
        for f in flavours:
            if f not in self.builds:
                self.builds[f] = build.ensure_build(f)
        self.zy = {}
        self.flavours = tuple(flavours)
        self.vg_build = None
        self.default_flavour = flavours[0] if flavours else "asan"
        self.white_box = all(b["white_box"] for b in self.builds.values())
        self.counters = collections.Counter()

    def zygote(self, flavour, tool):
        k = (flavour, tool)
        if k not in self.zy:
            if flavour == "valgrind":
                # memcheck over the optimised (plain) build
                # (kept apart from self.builds: what a case does must not depend on which cases ran before it)
                if self.vg_build is None:
                    self.vg_build = self.builds.get("plain") or build.ensure_build("plain")
                self.zy[k] = proto.Zygote(self.vg_build[tool], valgrind=True)
            else:
                self.zy[k] = proto.Zygote(self.builds[flavour][tool])
        return self.zy[k]

    def run(self, world, flavour=None):
        flavour = flavour or self.default_flavour
        w = {k: v for k, v in world.items() if not k.startswith("_")}
        if flavour == "valgrind":
            # the simulator's own pre-fill and probe would make indeterminate memory look defined
            w["fill_stack"] = False
            w["probe"] = False
        tool = w["tool"]
        last = None
        for attempt in range(3):
            z = self.zygote(flavour, tool)
            try:
                r = z.run(w)
            except proto.ZygoteDied:
                self.counters["zygote_restarts"] += 1
                z.restart()
                continue
            self.counters["runs"] += 1
            self.counters["lines_delivered"] += sum(1 for s in r.segs if s.line is not None)
            self.counters["seam_calls"] += sum(len(s.seam) for s in r.segs)
            last = r
            if r.classify()[0] != "hang":
                return r
            # a run killed by the safety alarm is repeated in a fresh zygote:
            # only a plan that hangs three times out of three is a hang
            self.counters["retried_after_alarm"] += 1
            z.restart()
        if last is None:
            raise proto.ZygoteDied("zygote keeps dying")
        return last

    def close(self):
        for z in self.zy.values():
            z.close()
        self.zy = {}


def evaluate_case(mod, ctx, scn):
    """mod.evaluate, plus: when the instrumented build stops a session at a sanitizer report (which is C15's business
    and is reported there), the question of this property is still open for that case; the uninstrumented build of
    the same tree answers it.  What a case does depends on the case alone."""
    ev = mod.evaluate(ctx, scn)
    if (getattr(mod, "RERUN_PLAIN_AFTER_SANITIZER", False) and not ev.violations and ev.counters.get("term:sanitizer")
            and ctx.default_flavour != "plain"):
        if "plain" not in ctx.builds:
            ctx.builds["plain"] = build.ensure_build("plain")
        old = ctx.default_flavour
        ctx.default_flavour = "plain"
        try:
            ev2 = mod.evaluate(ctx, scn)
        finally:
            ctx.default_flavour = old
        for v in ev2.violations:
            v.message = "[uninstrumented build; the ASan build of this session stops at a sanitizer report] " + v.message
        ev.violations.extend(ev2.violations)
        ev.hashes.extend(ev2.hashes)
        ev.cov.update(ev2.cov) if hasattr(ev.cov, "update") else ev.cov.extend(ev2.cov)
        ev.counters["rerun_plain_after_sanitizer"] += 1
        for k, n in ev2.counters.items():
            if k.startswith(("probe:", "fault:")):
                ev.counters[k] += n
    return ev


# ------------------------------------------------------------------- workers
_worker = {}


def _worker_init(modname, flavours, builds):
    import importlib
    _worker["mod"] = importlib.import_module(modname)
    _worker["ctx"] = Ctx(flavours, builds)


def _worker_chunk(args):
    master, tier, indices = args
    mod = _worker["mod"]
    ctx = _worker["ctx"]
    out = []
    for i in indices:
        seed = run_seed(master, i)
        rng = Rng(seed)
        try:
            scn = mod.gen(rng, tier, i)
            ev = evaluate_case(mod, ctx, scn)
            if isinstance(scn, dict) and scn.get("family"):
                ev.counters["family:%s%s" % (scn["family"], ("/" + scn["spend_kind"]) if scn.get("spend_kind") else "")] += 1
        except proto.ZygoteDied as e:
            out.append({"i": i, "seed": seed, "error": "zygote: %s" % e})
            continue
        except Exception:
            out.append({"i": i, "seed": seed, "error": traceback.format_exc()})
            continue
        out.append({
            "i": i, "seed": seed,
            "viol": [dict(v.to_json(), scenario=scn) for v in _first_per_class(ev.violations)],
            "cov": [int(hashlib.sha256(repr(c).encode()).hexdigest()[:15], 16) for c in ev.cov],
            "nontrivial": ev.nontrivial,
            "counters": dict(ev.counters),
            "nruns": len(ev.hashes),
            "sample": scn if i < 3 else None,
        })
    cnt = dict(ctx.counters)
    ctx.counters.clear()
    return out, cnt


def _first_per_class(vs):
    seen = set()
    out = []
    for v in vs:
        if v.cls() not in seen:
            seen.add(v.cls())
            out.append(v)
    return out


# ------------------------------------------------------------------ shrinking
def ddmin(items, test, budget):
    """classic delta debugging on a list; test(list) -> bool (still fails)"""
    n = 2
    items = list(items)
    while len(items) >= 1 and budget[0] > 0:
        if len(items) == 1:
            budget[0] -= 1
            if test([]):
                return []
            return items
        chunk = max(1, len(items) // n)
        reduced = False
        for start in range(0, len(items), chunk):
            if budget[0] <= 0:
                break
            cand = items[:start] + items[start + chunk:]
            budget[0] -= 1
            if test(cand):
                items = cand
                n = max(n - 1, 2)
                reduced = True
                break
        if not reduced:
            if chunk == 1:
                break
            n = min(len(items), n * 2)
    return items


def shrink(ctx, mod, scn, cls, budget=400, wall_s=90.0):
    """minimise the scenario while the same violation class persists (bounded in re-runs and in wall time)"""
    b = [budget]
    t_end = time.time() + wall_s

    def still(s):
        if time.time() > t_end:
            b[0] = 0
            return False
        try:
            ev = evaluate_case(mod, ctx, s)
        except Exception:
            return False
        return cls in ev.classes()

    cur = json.loads(json.dumps(scn))
    for rnd in range(3):
        before = json.dumps(cur, sort_keys=True)
        for field in getattr(mod, "SHRINK_LISTS", ["sched", "faults", "stack", "opts"]):
            if not isinstance(cur.get(field), list) or not cur[field]:
                continue

            def t(lst, field=field):
                c = dict(cur)
                c[field] = lst
                return still(c)
            cur[field] = ddmin(cur[field], t, b)
        if hasattr(mod, "shrink_extra"):
            cur = mod.shrink_extra(cur, still, b)
        if json.dumps(cur, sort_keys=True) == before or b[0] <= 0:
            break
    return cur, budget - b[0]


# -------------------------------------------------------------------- known
def load_known():
    try:
        return json.load(open(KNOWN))
    except (OSError, ValueError):
        return {"findings": []}


def known_entry(known, cls):
    for f in known.get("findings", []):
        if f.get("status") == "open" and (f["property"], f["clause"], f["site"]) == cls:
            return f
    return None


# ------------------------------------------------------------------- replay
def write_replay(prop, seed, scn, cls, message, hashes, minimised_from=None):
    os.makedirs(REPLAYS, exist_ok=True)
    tag = hashlib.sha256(json.dumps([cls, scn], sort_keys=True).encode()).hexdigest()[:10]
    path = os.path.join(REPLAYS, "%s-%d-%s.json" % (prop, seed, tag))
    doc = {"property": prop, "class": list(cls), "seed": seed, "scenario": scn, "expected": {"message": message, "log_hashes": hashes},
           "minimised_from": minimised_from}
    with open(path, "w") as f:
        json.dump(doc, f, indent=1, sort_keys=True)
    return path


def replay(path, mods):
    """exit status: 1 reproduced (prints VIOLATION), 2 could not reproduce"""
    doc = json.load(open(path))
    mod = mods[doc["property"]]
    try:
        ctx = Ctx(("asan",))
    except build.BuildError as e:
        sys.stderr.write("cannot build: %s\n" % e)
        return 2
    try:
        ev = evaluate_case(mod, ctx, doc["scenario"])
    finally:
        ctx.close()
    cls = tuple(doc["class"])
    if cls in ev.classes() and ev.hashes == doc["expected"]["log_hashes"]:
        msg = [v.message for v in ev.violations if v.cls() == cls][0]
        print("reproduced: %s" % msg)
        print("VIOLATION property=%s replay=%s" % (doc["property"], path))
        return 1
    sys.stderr.write("replay did not reproduce: classes now %r, hashes equal: %s\n" % (ev.classes(), ev.hashes == doc["expected"]["log_hashes"]))
    return 2


# -------------------------------------------------------------------- driver
def run_check(mod, tier, mods_for_replay=None):
    t0 = time.time()
    prop = mod.PROP
    master = int(os.environ.get("VERIF_SEED", "20260927"))
    cfg = mod.TIERS[tier]
    ncases = int(os.environ.get("BTCSIM_CASES", cfg["cases"]))
    flavours = tuple(cfg.get("flavours", ("asan",)))
    workers = int(os.environ.get("BTCSIM_WORKERS", min(16, os.cpu_count() or 4)))
    cap_s = float(os.environ.get("BTCSIM_CAP_S", cfg.get("cap_s", 3600)))
    print("btcsim %s tier=%s VERIF_SEED=%d cases=%d workers=%d flavours=%s" % (prop, tier, master, ncases, workers, ",".join(flavours)))
    sys.stdout.flush()
    try:
        builds = {f: build.ensure_build(f) for f in flavours}
    except build.BuildError as e:
        sys.stderr.write("cannot decide: the tree does not build under the simulator\n%s\n" % e)
        return 2
    white_box = all(b["white_box"] for b in builds.values())
    tb = time.time()

    chunk = max(1, min(25, ncases // (workers * 4) or 1))
    chunks = [(master, tier, list(range(s, min(s + chunk, ncases)))) for s in range(0, ncases, chunk)]
    results = {}
    counters = collections.Counter()
    errors = []
    capped = False
    with ProcessPoolExecutor(max_workers=workers, initializer=_worker_init, initargs=(mod.__name__, flavours, builds)) as ex:
        futs = [ex.submit(_worker_chunk, c) for c in chunks]
        for fu in futs:
            if time.time() - t0 > cap_s:
                capped = True
                for g in futs:
                    g.cancel()
                break
            try:
                out, cnt = fu.result()
            except Exception:
                errors.append(traceback.format_exc())
                continue
            counters.update(cnt)
            for r in out:
                results[r["i"]] = r
    done = sorted(results)
    cov = set()
    nontrivial_cov = set()
    viol_by_class = collections.OrderedDict()
    samples = []
    case_counters = collections.Counter()
    nruns = 0
    for i in done:
        r = results[i]
        if "error" in r:
            errors.append("case %d seed %d: %s" % (i, r["seed"], r["error"]))
            continue
        nruns += r["nruns"]
        case_counters.update(r["counters"])
        for c in r["cov"]:
            cov.add(c)
        if r["nontrivial"]:
            nontrivial_cov.add(tuple(r["cov"]))
        if r.get("sample") is not None:
            samples.append(_trim_sample(r["sample"]))
        for v in r["viol"]:
            cls = (v["property"], v["clause"], v["site"])
            if cls not in viol_by_class:
                viol_by_class[cls] = (i, r["seed"], v)
    tsweep = time.time()

    # ---- violations: shrink, gate, report
    known = load_known()
    exit_code = 0
    reported = []
    machinery_broken = False
    if viol_by_class:
        ctx = Ctx(("asan",), builds)
        try:
            for cls, (i, seed, v) in viol_by_class.items():
                ke = known_entry(known, cls)
                scn = v["scenario"]
                small, cost = shrink(ctx, mod, scn, cls, budget=60 if ke else 400)
                ev1 = evaluate_case(mod, ctx, small)
                ev2 = evaluate_case(mod, ctx, small)
                if cls not in ev1.classes() or ev1.hashes != ev2.hashes:
                    # fall back to the unshrunk scenario before giving up
                    small = scn
                    ev1 = evaluate_case(mod, ctx, small)
                    ev2 = evaluate_case(mod, ctx, small)
                    if cls not in ev1.classes() or ev1.hashes != ev2.hashes:
                        sys.stderr.write("determinism gate failed for %r (case %d seed %d)\n" % (cls, i, seed))
                        machinery_broken = True
                        continue
                msg = [x.message for x in ev1.violations if x.cls() == cls][0]
                path = write_replay(prop, seed, small, cls, msg, ev1.hashes, minimised_from={"case": i, "shrink_runs": cost})
                rp = subprocess.run([sys.executable, os.path.join(VERIF, "bin", "sim"), "replay", path], stdout=subprocess.PIPE, stderr=subprocess.PIPE)
                if rp.returncode != 1:
                    sys.stderr.write("fresh-process replay of %s did not reproduce (rc=%d): %s\n" % (path, rp.returncode, rp.stderr.decode()[-400:]))
                    machinery_broken = True
                    continue
                if ke:
                    print("KNOWN-FINDING: property=%s %s [%s @ %s] replay=%s" % (cls[0], ke.get("what", msg), cls[1], cls[2], path))
                else:
                    print("violation class %s @ %s (case %d, seed %d): %s" % (cls[1], cls[2], i, seed, msg))
                    print("VIOLATION property=%s replay=%s" % (cls[0], path))
                    exit_code = 1
                reported.append({"class": list(cls), "known": bool(ke), "replay": path, "message": msg})
                sys.stdout.flush()
        finally:
            ctx.close()
    if errors:
        for e in errors[:5]:
            sys.stderr.write("harness error: %s\n" % e)
        machinery_broken = True
    wall = time.time() - t0
    sweep_s = max(tsweep - tb, 1e-6)
    ev = {
        "property_id": prop,
        "tier": tier,
        "seed": master,
        "level": mod.LEVEL,
        "coverage": {
            "evaluations": nruns,
            "distinct_nontrivial": len(nontrivial_cov),
            "rule": mod.RULE,
            "samples": samples[:3],
            "cases": len(done),
            "cases_requested": ncases,
            "distinct_states": len(cov),
            "runs_per_hour": int(nruns / sweep_s * 3600),
            "seeds": {"master": master, "derivation": "splitmix64(master xor i*0x9E3779B97F4A7C15), i in [0,cases)"},
            "simulated_steps": {"user_lines_delivered": counters.get("lines_delivered", 0), "seam_calls": counters.get("seam_calls", 0),
                                "note": "btcdeb has no timer; simulated time is counted in delivered lines and seam calls (the discrete-event clock only moves in poll/select waits on stdin, which the unchanged tree never makes)"},
            "faults": {k[6:]: v for k, v in sorted(case_counters.items()) if k.startswith("fault:")},
            "probes": {k[6:]: v for k, v in sorted(case_counters.items()) if k.startswith("probe:")},
            "terminations": {k[5:]: v for k, v in sorted(case_counters.items()) if k.startswith("term:")},
            "workload_families": {k[7:]: v for k, v in sorted(case_counters.items()) if k.startswith("family:")},
            "other_counters": {k: v for k, v in sorted(case_counters.items()) if ":" not in k},
            "components": {"real": ["btcdeb.cpp main()", "kerl/kerl.c REPL", "functions.cpp", "instance.cpp", "debugger/*", "script/*", "value.cpp", "libsecp256k1 (unsanitised)"],
                           "stub": ["GNU readline (simulated user)", "stdin/stdout/stderr end points (fopencookie)", "fopen (in-memory file system)", "isatty", "getenv", "ioctl(TIOCGWINSZ)", "poll/select (simulated clock)", "exit/abort classifier"]},
            "flavours": list(flavours),
            "white_box_probe": white_box,
            "white_box_probe_groups": builds[flavours[0]].get("probe_groups", []),
            "retried_after_alarm": counters.get("retried_after_alarm", 0),
            "wall_clock_cap_hit": capped,
            "violations_reported": reported,
            "exhaustive": False,
        },
        "assumptions": mod.ASSUMPTIONS,
        "wall_s": round(wall, 2),
        "violations": sum(1 for r in reported if not r["known"]),
    }
    if hasattr(mod, "extra_evidence"):
        ev["coverage"].update(mod.extra_evidence(case_counters))
    os.makedirs(EVIDENCE, exist_ok=True)
    with open(os.path.join(EVIDENCE, prop + ".json"), "w") as f:
        json.dump(ev, f, indent=1, sort_keys=True)
    print("%s: %d cases, %d simulated runs, %d distinct states, %d distinct non-trivial histories, build %.1fs sweep %.1fs total %.1fs"
          % (prop, len(done), nruns, len(cov), len(nontrivial_cov), tb - t0, tsweep - tb, wall))
    if machinery_broken:
        return 2 if exit_code == 0 else exit_code
    return exit_code


def _trim_sample(scn):
    s = json.loads(json.dumps(scn))
    for k, v in list(s.items()):
        if isinstance(v, str) and len(v) > 400:
            s[k] = v[:400] + "...(%d chars)" % len(v)
    if isinstance(s.get("spend"), dict):
        for k, v in list(s["spend"].items()):
            if isinstance(v, str) and len(v) > 120:
                s["spend"][k] = v[:120] + "..."
    return s
