"""C12 - the listing and the position marker show exactly what executes next.

The expected listing is rendered by the harness from the bytes it generated
(expect.py); the truth about "what executes next" comes from the accepted-step
count in the fault-free regime and from the bytes at the program counter
(white-box probe) in the fault regime, where failing and throwing steps are
followed by further steps and rewinds.
"""
import re

from . import expect, gen as G, proto, script as S, session, workloads
from .core import Eval

PROP = "C12"
LEVEL = "exploration"
RULE = ("case = one generated btcdeb session (script, dataset spend, synthetic spend) x one seeded walk over {step, rewind, print, blank-repeat}, "
        "in the fault regime with a failing or throwing operation spliced into the script; after every command the `print` listing, its marker and the "
        "step/rewind echo are compared with the operation that executes next; non-trivial = the marker moved at least twice and at least one rewind or "
        "failed step occurred; distinct = distinct sequence of (command, reply, marker index, next-op) along the session")
ASSUMPTIONS = [
    "the expected listing is rendered from inputs the harness generated, with the display rule of DESIGN Appendix A.2",
    "what executes next: accepted-step count (fault-free) or the bytes at the program counter read by the white-box probe (fault regime)",
    "lines longer than the tool's 1024-byte line buffer are compared up to the tool's own length",
]
RERUN_PLAIN_AFTER_SANITIZER = True      # see core.evaluate_case
TIERS = {
    "quick": {"cases": 12000, "flavours": ("asan",), "cap_s": 600},
    "thorough": {"cases": 250000, "flavours": ("asan",), "cap_s": 3 * 3600},
}
SHRINK_LISTS = ["walk", "stack"]

_entry_re = re.compile(r"^#(\d{4,}) (.*)$")


def gen_walk(rng, n):
    walk = []
    for i in range(n):
        walk.append([rng.weighted([(60, "step"), (25, "rewind"), (8, "print"), (7, "blank")])])
    return walk


# ---- sessions of thousands of operations (see workloads.deep_scenario): stdout is counted, not recorded, so the
# marker is read from the probe - curr_op_seq, the index at which `print` draws its arrow (which the ordinary cases
# verify against the printed listing after every command) - and compared with the entry of the operation at the
# program counter.
DEEP = {"quick": 4, "thorough": 40}


def deep_index(idx, tier):
    return idx // 25 if (idx % 25 == 0 and idx // 25 < DEEP[tier]) else None


def deep_case(rng):
    scn = workloads.deep_scenario(rng)
    d = scn["deep_depth"]
    r = d - rng.range(0, 30) if rng.chance(60) else rng.range(1, 8)
    scn["walk"] = [["step"]] * d + [["rewind"]] * max(1, r) + [[rng.weighted([(60, "step"), (40, "rewind")])] for _ in range(rng.range(0, 12))]
    scn["regime"] = "clean"
    scn["deep"] = True
    return scn


def evaluate_deep(ctx, scn):
    ev = Eval()
    secs = expect.sections(scn)
    lst = expect.Listing(secs)
    raw = bytes.fromhex(scn["script"])
    items = [["sync"]] + [list(m) for m in scn["walk"]]
    w = session.build_world(scn, sched=items, observe=False)
    run = ctx.run(w)
    ev.hashes.append(run.hash())
    ev.counters["term:" + run.classify()[0]] += 1
    if run.classify()[0] == "overflow" or len(run.segs) < 2:
        ev.counters["inconclusive_log_overflow"] += 1
        return ev
    cmds = session.parse_session(w, run, items)
    trace = []
    moves = 0
    for ci, c in enumerate(cmds):
        if c.reply is None:
            break
        p = c.post
        if not p or p.get("env") != "ok" or "next" not in p or "curr_op_seq" not in p:
            continue
        if p.get("next") == "op":
            idx = lst.index_for(raw, int(p.get("pc", "-1")))
            want = set(idx) if idx else "skip"
            desc = "the operation at byte %s" % p.get("pc")
        elif p.get("next") in ("finish", "nothing"):
            want, desc = None, "nothing"
        else:
            want = "skip"
        if want == "skip":
            continue
        mk = int(p["curr_op_seq"])
        moves += 1
        trace.append((c.kind[0], c.reply[0][0], mk))
        shown = mk if mk < len(lst.entries) else None
        if (want is None and shown is not None and p.get("done") != "1") or (want is not None and shown not in want):
            ev.add(PROP, "marker", "internal:deep", "after command %d (`%s`) the listing position is entry %s but the next step executes %s (entry %s)"
                   % (ci, c.kind, mk, desc, sorted(want) if want else "-"))
            break
    ev.nontrivial = moves > 1000
    ev.cov = trace[-50:]
    ev.counters["probe:deep_session_commands"] += len(cmds)
    return ev


def gen(rng, tier, idx):
    if deep_index(idx, tier) is not None:
        return deep_case(rng)
    scn = workloads.session_scenario(rng, purpose="listing")
    scn["observe"] = True
    scn["regime"] = "clean" if rng.chance(55) else "fault"
    scn.pop("discard_stdout", None)      # this check reads what the tool prints
    if scn["regime"] == "fault" and scn.get("spend_kind") == "tapscript" and rng.chance(60):
        # a spend that does not verify: the commitment phase ends in a failing step
        from . import spend
        sp = spend.make(rng, "tapscript", damage=True)
        scn["spend"] = {"tx": sp["tx"], "txin": sp["txin"]}
        scn["injected"] = "fail"
    if scn["regime"] == "fault" and scn.get("script") is not None:
        if rng.chance(50):
            toks = G.failing_op(rng)
            scn["injected"] = "fail"
        else:
            toks = G.throwing_op(rng)
            scn["injected"] = "throw"
        workloads.inject_ops(scn, rng, toks)
    n = rng.weighted([(3, rng.range(1, 8)), (5, rng.range(8, 30)), (2, rng.range(30, 70))])
    scn["walk"] = gen_walk(rng, n)
    if rng.chance(15):
        scn["faults"] = workloads.inert_environment(rng)     # the listing does not care about the history file or entropy
        scn["winsize"] = [rng.choice([0, 5, 9, 40, 80, 200]), 24]
    return scn


def shrink_extra(scn, still, budget):
    return workloads.shrink_script(scn, still, budget)


def line_matches(tool_text, want_text):
    if tool_text == want_text:
        return True
    # the tool's line buffer holds 1023 characters: a longer entry may be cut
    return len(want_text) > 1000 and len(tool_text) >= 1000 and want_text.startswith(tool_text)


def check_listing(ev, lst, printed, ctx_site):
    """clause 1: the printed listing equals the expected one (static part)"""
    exp = lst.entries
    ncommit = lst.n_commit()
    if len(printed) != len(exp):
        pc = sum(1 for (_, t) in printed if not t.startswith("<<<") and _entry_re.match(t) and not is_op_text(_entry_re.match(t).group(2)))
        site = "commitment-length" if ncommit and len(printed) - len(exp) == pc - ncommit and pc != ncommit else "length"
        ev.add(PROP, "listing", site, "the listing has %d entries, the session executes %d operations/sections (%s)" % (len(printed), len(exp), ctx_site))
        return False
    for i, ((marked, text), (kind, want, si, o)) in enumerate(zip(printed, exp)):
        if kind == "header":
            if text != want:
                ev.add(PROP, "listing", "header", "entry %d is %r, expected section header %r" % (i, text[:80], want))
                return False
            continue
        m = _entry_re.match(text)
        if not m or int(m.group(1)) != i:
            ev.add(PROP, "listing", "numbering", "entry %d is shown as %r" % (i, text[:80]))
            return False
        if kind == "op" and not line_matches(text, "#%04d %s" % (i, want)):
            ev.add(PROP, "listing", "decoding", "entry %d is shown as %r, the bytes decode to %r" % (i, m.group(2)[:80], want[:80]))
            return False
    return True


def is_op_text(t):
    return bool(re.match(r"^([0-9a-f]+|OP_[A-Z0-9_]+|-1)$", t))


def expected_marker(lst, probe):
    """-> (set of acceptable indices | None for 'no marker' | 'skip', description)"""
    nx = probe.get("next")
    if nx == "op":
        try:
            sb = bytes.fromhex(probe.get("script", ""))
        except ValueError:
            return "skip", ""
        idx = lst.index_for(sb, int(probe.get("pc", "-1")))
        if not idx:
            return "skip", ""
        op = int(probe.get("next_opcode", "0"))
        return set(idx), "%s at byte %s" % (S.listing_entry(op, bytes.fromhex(probe.get("next_push", ""))), probe.get("pc"))
    if nx == "spk-switch":
        return set(lst.header_index("<<< scriptPubKey >>>")) or "skip", "switch to the scriptPubKey"
    if nx == "p2sh-switch":
        return set(lst.header_index("<<< P2SH script >>>")) or "skip", "switch to the P2SH script"
    if nx == "commit":
        return set(lst.commit_index(int(probe.get("tce_i", "0")))) or "skip", "commitment step %s" % probe.get("tce_i")
    if nx in ("finish", "nothing"):
        return None, "nothing (all operations executed)"
    return "skip", ""


def evaluate(ctx, scn):
    if scn.get("deep"):
        return evaluate_deep(ctx, scn)
    ev = Eval()
    secs = expect.sections(scn)
    items = [["sync"]] + [list(m) for m in scn["walk"]]
    w = session.build_world(scn, sched=items, observe=True)
    if scn.get("winsize"):
        w["winsize"] = list(scn["winsize"])
    for f in scn.get("faults", []):
        ev.counters["fault:configured_" + f["kind"]] += 1
    run = ctx.run(w)
    ev.hashes.append(run.hash())
    ev.counters["term:" + run.classify()[0]] += 1
    if run.classify()[0] == "overflow":
        ev.counters["inconclusive_log_overflow"] += 1
        return ev
    if len(run.segs) < 2 or secs is None:
        ev.counters["not_started"] += 1
        return ev
    lst = expect.Listing(secs)
    cmds = session.parse_session(w, run, items)
    net = 0
    context = "clean"
    listing_ok = None
    marker_moves = 0
    last_marker = "x"
    interesting = False
    trace = []
    reported = set()
    for ci, c in enumerate(cmds):
        if c.reply is None or c.seg is None:
            break
        kind = c.kind
        rep = c.reply[0]
        if kind == "step":
            if rep == "accepted":
                net += 1
            elif rep == "failed":
                context = "after-thrown-step" if c.reply[1].startswith("exception") else "after-failed-step"
                ev.counters["probe:step_%s" % ("thrown" if "thrown" in context else "failed")] += 1
                ev.counters["fault:fired_STEP_%s" % ("THROW" if "thrown" in context else "FAIL")] += 1
                interesting = True
        elif kind == "rewind":
            if rep == "accepted":
                net -= 1
                interesting = True
                if context != "clean":
                    ev.counters["probe:rewind_%s" % context] += 1
        elif kind == "print":
            # clause 4: print changes nothing
            a, b = session.wb_state(c.pre), session.wb_state(c.post)
            if a is not None and b is not None and a != b and "purity" not in reported:
                reported.add("purity")
                ev.add(PROP, "print-not-pure", session.wb_diff(a, b)[0].split(":")[0], "`print` changed the session state: %s" % "; ".join(session.wb_diff(a, b)[:3]))
        pr = c.obs.get("print")
        if "print" in c.obs and c.obs.get("print_pre") is not None:
            a, b = session.wb_state(c.obs["print_pre"]), session.wb_state(c.obs["print_post"])
            if a is not None and b is not None and a != b and "purity" not in reported:
                reported.add("purity")
                ev.add(PROP, "print-not-pure", session.wb_diff(a, b)[0].split(":")[0], "`print` changed the session state: %s" % "; ".join(session.wb_diff(a, b)[:3]))
        if pr is None:
            if "print" in c.obs and "unparsable" not in reported:
                reported.add("unparsable")
                ev.add(PROP, "listing", "format", "a line of the `print` output has neither the marker nor the four-space prefix")
            continue
        if listing_ok is None:
            listing_ok = check_listing(ev, lst, pr, context)
        marks = [i for i, (m, _) in enumerate(pr) if m]
        mk = marks[0] if marks else None
        if mk != last_marker:
            marker_moves += 1
            last_marker = mk
        if len(marks) > 1 and "multi" not in reported:
            reported.add("multi")
            ev.add(PROP, "marker", "several", "%d entries are marked as current" % len(marks))
        probe = c.obs.get("print_pre") or c.post
        want_desc = ""
        if probe and probe.get("env") == "ok" and "next" in probe and listing_ok:
            want, want_desc = expected_marker(lst, probe)
        elif context == "clean" and listing_ok:
            # black-box: in a fault-free history the k-th accepted step executes entry k
            want = {net} if net < len(lst.entries) else None
            want_desc = "entry %d" % net
        else:
            want = "skip"
        trace.append((kind, rep, mk, want_desc))
        if want != "skip":
            bad = (want is None and mk is not None) or (want is not None and (mk is None or mk not in want))
            if bad and ("marker", context) not in reported:
                reported.add(("marker", context))
                shown = pr[mk][1][:60] if mk is not None else "nothing"
                sp = "spend" if scn.get("spend") else "script"
                ev.add(PROP, "marker", "%s:%s" % (context, "tapscript" if lst.n_commit() else sp),
                       "after `%s` the marker is on %s (entry %s) but the next step executes %s (entry %s)"
                       % (session.render_item(c.item) if c.item[0] != "blank" else "<blank>", shown, mk, want_desc, sorted(want) if want else None))
        # clause 1b: the script pane of the step / rewind table lists exactly the operations still to be executed
        if kind in ("step", "rewind") and rep == "accepted" and want not in ("skip",) and listing_ok and ("pane", context) not in reported \
                and not (probe and probe.get("next") == "commit") and not (want and min(want) < lst.n_commit()):
            pane = session.parse_pane(c.seg.out)
            if pane is not None:
                left, right, lcap = pane
                ev.counters["probe:pane_checked"] += 1
                start = min(want) if want else len(lst.entries)
                exp = [(e[1] if e[0] != "commit" else None) for e in lst.entries[start:]]
                ok_pane = len(left) == len(exp)
                if ok_pane:
                    for got, w_ in zip(left, exp):
                        if w_ is None or got == w_:
                            continue
                        if len(w_) > lcap and got.endswith("...") and w_.startswith(got[:-3]):
                            continue
                        ok_pane = False
                        break
                if not ok_pane:
                    reported.add(("pane", context))
                    ev.add(PROP, "pane", context, "after `%s` the script pane lists %d entries starting with %r, %d operations remain starting with %r"
                           % (kind, len(left), (left[0] if left else "")[:40], len(exp), (exp[0] or "" if exp else "")[:40]))
        # clause 3: the echo of step / rewind equals the marked line
        if kind in ("step", "rewind") and rep == "accepted" and ("echo", context) not in reported:
            marked_text = pr[mk][1] if mk is not None else None
            if c.echo != marked_text and not (c.echo and marked_text and line_matches(c.echo, marked_text)):
                reported.add(("echo", context))
                ev.add(PROP, "echo", context, "`%s` echoed %r while the listing marks %r" % (kind, (c.echo or "nothing")[:60], (marked_text or "nothing")[:60]))
    if scn.get("injected"):
        ev.counters["fault:configured_STEP_%s" % ("THROW" if scn["injected"] == "throw" else "FAIL")] += 1
    ev.nontrivial = marker_moves >= 2 and interesting
    ev.cov = trace
    ev.counters["marker_moves"] += marker_moves
    if lst.n_commit():
        ev.counters["probe:tapscript_session"] += 1
    if any(k == "header" for k, _ in secs):
        ev.counters["probe:multi_section_session"] += 1
    if any(e[0] == "header" for e in lst.entries) and last_marker is not None and isinstance(last_marker, int) and lst.entries[min(last_marker, len(lst.entries) - 1)][0] == "header":
        ev.counters["probe:marker_on_header_line"] += 1
    return ev
