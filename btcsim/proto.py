"""World -> wire frames, wire frames -> Run; the zygote driver."""
import hashlib
import json
import os
import re
import struct
import subprocess

REPO_ROOT = os.environ.get("BTCSIM_REPO", "/repo").rstrip("/")

L1 = "latin-1"


def b(s):
    return s if isinstance(s, (bytes, bytearray)) else s.encode(L1)


def frame(tag, payload=b""):
    payload = b(payload)
    return tag.encode() + struct.pack("<I", len(payload)) + payload


def new_world(tool="btcdeb", argv=None, tty=(True, True), user=None):
    return {
        "tool": tool,
        "argv": [tool] + list(argv or []),
        "env": {},
        "tty": [bool(tty[0]), bool(tty[1])],
        "stdin": {"data": "", "chunks": [], "end_errno": 0},
        "files": [],
        "sinks": {},
        "user": list(user or []),
        "urandom": {"seed": 1, "absent_errno": 0, "short_after": -1},
        "cap": 10000,
        "fill_stack": True,
    }


def encode_world(w):
    out = []
    for a in w["argv"]:
        out.append(frame("a", a))
    for k in sorted(w.get("env", {})):
        out.append(frame("e", k + "=" + w["env"][k]))
    fk = w.get("fdkind", "pp")      # what a non-terminal stdin / stdout is: p pipe, f regular file, c character device, s socket
    out.append(frame("t", ("1" if w["tty"][0] else "0") + ("1" if w["tty"][1] else "0") + fk[:2]))
    si = w.get("stdin") or {}
    out.append(frame("i", b("%d %s\n" % (si.get("end_errno", 0), ",".join(str(c) for c in si.get("chunks", [])))) + b(si.get("data", ""))))
    for f in w.get("files", []):
        head = ["path=" + f["path"], "exists=%d" % (1 if f.get("exists", True) else 0)]
        if f.get("open_fail"):
            head.append("open_fail=" + ",".join(str(x) for x in f["open_fail"]))
            head.append("open_errno=%d" % f.get("open_errno", 13))
        for k in ("read_fail_after", "read_errno", "write_fail_after", "write_errno", "close_errno", "read_chunk"):
            if k in f:
                head.append("%s=%d" % (k, f[k]))
        out.append(frame("f", b(" ".join(head) + "\n") + b(f.get("content", ""))))
    for which in sorted(w.get("sinks", {})):
        after, err = w["sinks"][which]
        out.append(frame("k", "%s %d %d" % (which, after, err)))
    tabs = w.get("tabs") or {}
    sigints = set(int(x) for x in (w.get("sigints") or []))
    if w.get("stdin_delay_ms") or w.get("discard_stdout"):
        out.append(frame("d", "%d %d" % (w.get("stdin_delay_ms", 0), 1 if w.get("discard_stdout") else 0)))
    for i, u in enumerate(w.get("user", [])):
        if i in sigints:
            out.append(frame("j"))
        for pos in tabs.get(str(i), tabs.get(i, [])):
            out.append(frame("b", "%d" % pos))
        out.append(frame("z") if u is None else frame("u", u))
    if w.get("winsize"):
        out.append(frame("w", "%d %d" % (w["winsize"][0], w["winsize"][1])))
    ur = w.get("urandom") or {}
    out.append(frame("r", "%d %d %d" % (ur.get("seed", 1), ur.get("absent_errno", 0), ur.get("short_after", -1))))
    pr = w.get("probe", True)
    out.append(frame("c", "%d %d %d %d" % (w.get("cap", 10000), 1 if w.get("fill_stack", True) else 0, (2 if pr == 2 else 1) if pr else 0, w.get("alarm_s", 30))))
    out.append(frame("."))
    return b"".join(out)


def world_digest(w):
    return hashlib.sha256(json.dumps(w, sort_keys=True).encode()).hexdigest()[:16]


class Seg:
    """What happened between two prompts: the line the user gave and everything
    the tool did in response.  Segment 0 is start-up (no prompt, no line)."""
    __slots__ = ("prompt", "probe", "line", "eof", "out", "err", "seam", "hist")

    def __init__(self, prompt=None):
        self.prompt = prompt
        self.probe = None
        self.line = None
        self.eof = False
        self.out = bytearray()
        self.err = bytearray()
        self.seam = []
        self.hist = []

    def canon(self):
        return [self.prompt, self.probe, self.line, self.eof, self.out.decode(L1), self.err.decode(L1), self.seam, self.hist]


class Run:
    def __init__(self):
        self.segs = [Seg()]
        self.term = []
        self.wait = ("none", 0)
        self.raw = b""
        self.overflow = False
        self.written = []
        self.valgrind = ""
        self._hash = None

    # ---- classification
    def classify(self):
        """(kind, detail); kind in return exit terminate abort assert sanitizer signal hang cap overflow unknown"""
        wk, wc = self.wait
        t = self.term
        first = t[0].split(" ", 1) if t else ["", ""]
        if wk == "signaled" and wc == 14:
            return ("hang", "SIGALRM")      # also when the event log overflowed on the way: endless output is a hang
        if wk == "signaled" and wc == 2 and any(c == "sigint" for s_ in self.segs for c in s_.seam) \
                and not any(c == "sigint-returned" for s_ in self.segs for c in s_.seam):
            return ("interrupted", "SIGINT from the user")     # Ctrl-C ended the session: the user's choice, not a crash
        if self.overflow:
            return ("overflow", "")
        if wk == "signaled":
            return ("signal", "signal %d" % wc)
        if wk == "exited" and wc == 77:
            return ("sanitizer", sanitizer_site(self.raw))
        for x in t:
            k = x.split(" ", 1)
            if k[0] in ("terminate", "abort", "assert", "cap"):
                return (k[0], k[1] if len(k) > 1 else "")
        if first[0] in ("return", "exit") and "exited" in t and wk == "exited":
            return (first[0], first[1] if len(first) > 1 else "")
        return ("unknown", "%s %s %r" % (wk, wc, t))

    def normal(self):
        return self.classify()[0] in ("return", "exit", "interrupted")

    def exit_code(self):
        k, d = self.classify()
        if k in ("return", "exit"):
            try:
                return int(d) & 0xFF
            except ValueError:
                return None
        return None

    def stdout(self):
        return bytes(b"".join(bytes(s.out) for s in self.segs))

    def stderr(self):
        return bytes(b"".join(bytes(s.err) for s in self.segs))

    def seam_calls(self):
        return [c for s in self.segs for c in s.seam]

    def hash(self):
        if self._hash is None:
            c = [[s.canon() for s in self.segs], self.term, list(self.wait), self.overflow,
                 [[p, d.decode(L1)] for p, d in self.written], sanitizer_site(self.raw) if self.raw else ""]
            self._hash = hashlib.sha256(json.dumps(c, sort_keys=True).encode()).hexdigest()
        return self._hash


_frame_re = re.compile(r"^\s*#(\d+) 0x[0-9a-f]+ in (.+?) (/\S+?):(\d+)")
_err_re = re.compile(r"ERROR: (?:AddressSanitizer|UndefinedBehaviorSanitizer): ([\w-]+)")
_ub_re = re.compile(r"^(/\S+?):(\d+):(\d+): runtime error: (.*)$", re.M)


_vg_head = re.compile(r"^==\d+== ([A-Z][^\n]*)$", re.M)
_vg_frame = re.compile(r"^==\d+==\s+(?:at|by) 0x[0-9A-F]+: (.+?) \((\S+?):(\d+)\)$", re.M)


def valgrind_site(txt):
    """kind@file:function of the first memcheck error whose stack touches the repository"""
    m = _vg_head.search(txt)
    kind = re.sub(r"\d+", "N", m.group(1))[:60] if m else "error"
    for fm in _vg_frame.finditer(txt):
        fn, f = fm.group(1), fm.group(2)
        if f in ("seam.cpp", "probe.cpp") or f.startswith("vg_"):
            continue
        if "/" not in f and not f.endswith((".c", ".cpp", ".h")):
            continue
        return "%s@%s:%s" % (kind, f, re.sub(r"\(.*$", "", fn))
    return "%s@?" % kind


def sanitizer_site(raw):
    """kind@file:function of the first frame inside the repository; line numbers
    are left out so that an unrelated edit above does not rename a finding."""
    txt = raw.decode(L1) if isinstance(raw, (bytes, bytearray)) else raw
    m = _err_re.search(txt)
    kind = m.group(1) if m else None
    if kind is None:
        u = _ub_re.search(txt)
        if u:
            return "ubsan:%s@%s" % (re.sub(r"[0-9]+", "N", u.group(4))[:60], os.path.relpath(u.group(1), REPO_ROOT))
        kind = "unknown"
    site = "?"
    for line in txt.splitlines():
        fm = _frame_re.match(line)
        if fm and fm.group(3).startswith(REPO_ROOT + "/"):
            fn = re.sub(r"\(.*$", "", fm.group(2))
            site = "%s:%s" % (os.path.relpath(fm.group(3), REPO_ROOT), fn)
            break
    return "%s@%s" % (kind, site)


def parse_probe(payload):
    d = {}
    for ln in payload.decode(L1).split("\n"):
        if "=" in ln:
            k, v = ln.split("=", 1)
            d[k] = v
    return d


def parse_run(frames):
    r = Run()
    cur = r.segs[0]
    for tag, p in frames:
        if tag == "R":
            cur = Seg(p.decode(L1))
            r.segs.append(cur)
        elif tag == "P":
            cur.probe = parse_probe(p)
        elif tag == "L":
            cur.line = p.decode(L1)
        elif tag == "Z":
            cur.eof = True
        elif tag == "O":
            cur.out += p
        elif tag == "E":
            cur.err += p
        elif tag == "S":
            cur.seam.append(p.decode(L1))
        elif tag == "H":
            cur.hist.append(p.decode(L1))
        elif tag == "C":
            cur.seam.append("completions " + p.decode(L1)[:200])
        elif tag == "F":
            path, _, data = p.partition(b"\n")
            r.written.append((path.decode(L1)[6:], bytes(data)))
        elif tag == "T":
            r.term.append(p.decode(L1))
        elif tag == "X":
            r.raw = bytes(p)
        elif tag == "V":
            r.overflow = True
        elif tag == "W":
            k, c = p.decode().split()
            r.wait = (k, int(c))
    return r


class ZygoteDied(Exception):
    pass


class Zygote:
    def __init__(self, exe, valgrind=False):
        self.exe = exe
        self.p = None
        self.runs = 0
        self.valgrind = valgrind
        self.vglog = None
        self.vgpos = 0
        self.start()

    def start(self):
        env = {"PATH": "/usr/bin:/bin", "LC_ALL": "C"}
        cmd = [self.exe]
        kw = {}
        if self.valgrind:
            # memcheck over the optimised build: the zygote and every forked child log to one file
            import tempfile
            self.vglog = tempfile.TemporaryFile()
            self.vgpos = 0
            env["BTCSIM_NOASLR"] = "1"          # no re-exec under valgrind
            cmd = ["valgrind", "-q", "--error-exitcode=76", "--log-fd=%d" % self.vglog.fileno(), self.exe]
            kw["pass_fds"] = (self.vglog.fileno(),)
        self.p = subprocess.Popen(cmd, stdin=subprocess.PIPE, stdout=subprocess.PIPE, env=env, cwd="/", **kw)
        tag, p = self._read_frame()
        if tag != "Y":
            raise ZygoteDied("no ready frame from %s" % self.exe)

    def _read_exact(self, n):
        buf = self.p.stdout.read(n)
        if buf is None or len(buf) != n:
            raise ZygoteDied("zygote %s went away" % self.exe)
        return buf

    def _read_frame(self):
        h = self._read_exact(5)
        n = struct.unpack("<I", h[1:])[0]
        return chr(h[0]), (self._read_exact(n) if n else b"")

    def run(self, world):
        self.p.stdin.write(encode_world(world))
        self.p.stdin.flush()
        h = self._read_exact(5)
        if h[0:1] != b"B":
            raise ZygoteDied("protocol error")
        blob = self._read_exact(struct.unpack("<I", h[1:])[0])
        frames = []
        i = 0
        n = len(blob)
        while i < n:
            ln = struct.unpack_from("<I", blob, i + 1)[0]
            frames.append((chr(blob[i]), blob[i + 5:i + 5 + ln]))
            i += 5 + ln
        self.runs += 1
        r = parse_run(frames)
        if self.valgrind:
            self.vglog.seek(self.vgpos)
            txt = self.vglog.read()
            self.vgpos += len(txt)
            r.valgrind = txt.decode(L1)
        return r

    def close(self):
        if self.p:
            try:
                self.p.stdin.close()
                self.p.stdout.close()
                self.p.kill()
                self.p.wait()
            except Exception:
                pass
            self.p = None

    def restart(self):
        self.close()
        self.start()
