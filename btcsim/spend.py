"""Synthetic (funding, spending) transaction pairs of every output type, with
valid signatures, as session workloads (DESIGN 3.6).  Workload, not oracle."""
import hashlib

from . import ecc, gen as G, script as S, tx as T

KEYS = [0x1111111111111111111111111111111111111111111111111111111111111111 + 977 * i for i in range(1, 9)]
_pub_cache = {}


def pub(i):
    if i not in _pub_cache:
        _pub_cache[i] = (ecc.pub_compressed(KEYS[i]), ecc.pub_xonly(KEYS[i]))
    return _pub_cache[i]


def sha256(b):
    return hashlib.sha256(b).digest()


# ---------------------------------------------------------------- sighashes
def strip_codesep(script):
    out = bytearray()
    for (o, op, data, ln) in S.decode(script):
        if op != 0xab:
            out += script[o:o + ln]
    return bytes(out)


def sighash_legacy(tx, idx, script_code, hashtype=1):
    t = T.Tx(tx.version, [T.TxIn(i.prev_hash, i.prev_n, b"", i.sequence) for i in tx.vin], tx.vout, tx.locktime)
    t.vin[idx].script_sig = strip_codesep(script_code)
    return T.dsha(t.ser(witness=False) + hashtype.to_bytes(4, "little"))


def sighash_v0(tx, idx, script_code, amount, hashtype=1):
    hp = T.dsha(b"".join(i.prev_hash + i.prev_n.to_bytes(4, "little") for i in tx.vin))
    hs = T.dsha(b"".join(i.sequence.to_bytes(4, "little") for i in tx.vin))
    ho = T.dsha(b"".join(o.ser() for o in tx.vout))
    i = tx.vin[idx]
    pre = (tx.version.to_bytes(4, "little") + hp + hs + i.prev_hash + i.prev_n.to_bytes(4, "little") + T.varint(len(script_code)) + script_code
           + amount.to_bytes(8, "little") + i.sequence.to_bytes(4, "little") + ho + tx.locktime.to_bytes(4, "little") + hashtype.to_bytes(4, "little"))
    return T.dsha(pre)


def sighash_taproot(tx, idx, spent, hashtype=0, annex=None, leaf_hash=None, codesep_pos=0xffffffff):
    """spent: list of TxOut being spent, one per input"""
    m = bytes([hashtype]) + tx.version.to_bytes(4, "little") + tx.locktime.to_bytes(4, "little")
    m += sha256(b"".join(i.prev_hash + i.prev_n.to_bytes(4, "little") for i in tx.vin))
    m += sha256(b"".join(o.value.to_bytes(8, "little") for o in spent))
    m += sha256(b"".join(T.varint(len(o.spk)) + o.spk for o in spent))
    m += sha256(b"".join(i.sequence.to_bytes(4, "little") for i in tx.vin))
    m += sha256(b"".join(o.ser() for o in tx.vout))
    ext = 1 if leaf_hash is not None else 0
    m += bytes([ext * 2 + (1 if annex is not None else 0)])
    m += idx.to_bytes(4, "little")
    if annex is not None:
        m += sha256(T.varint(len(annex)) + annex)
    if ext:
        m += leaf_hash + b"\x00" + codesep_pos.to_bytes(4, "little")
    return ecc.tagged("TapSighash", b"\x00" + m)


def tapleaf_hash(script, ver=0xc0):
    return ecc.tagged("TapLeaf", bytes([ver]) + T.varint(len(script)) + script)


def tapbranch(a, b):
    return ecc.tagged("TapBranch", a + b if a < b else b + a)


# ------------------------------------------------------------------ building
def funding(spk, value=100000):
    t = T.Tx(2, [T.TxIn(b"\x77" * 32, 0, b"\x51", 0xfffffffe)], [T.TxOut(value, spk)], 0)
    return t


def spending_skeleton(fund, rng, nout=1, extra_inputs=0, our_index=0):
    outs = [T.TxOut(90000 - 1000 * k, bytes([0x76, 0xa9, 0x14]) + rng.bytes(20) + bytes([0x88, 0xac])) for k in range(nout)]
    vin = [T.TxIn(fund.txid(), 0, b"", rng.choice([0xffffffff, 0xfffffffe, 5]))]
    for j in range(extra_inputs):
        # other people's inputs (legacy sighashes cover them; btcdeb does not need their funding transactions)
        other = T.TxIn(rng.bytes(32), rng.below(3), S.push(rng.bytes(71)) + S.push(rng.bytes(33)), 0xffffffff)
        vin.insert(0 if j < our_index else len(vin), other)
    return T.Tx(2, vin, outs, rng.choice([0, 0, 500000]))


def filler(rng, n):
    """self-contained non-signature snippets (they consume only what they push)"""
    g = G.ScriptGen(rng, max_ops=30)
    g.build(n)
    # leave the stack as it was found: the signatures below must stay on top
    left = len(g.st)
    while left >= 2:
        g.toks.append("OP_2DROP")
        left -= 2
    if left:
        g.toks.append("OP_DROP")
    return g.toks


class SigScript:
    """A script made of top-level pieces; remembers where each signature check
    stands so that the right script code can be signed."""

    def __init__(self):
        self.pieces = []        # bytes
        self.sigops = []        # (key index, byte offset of the start of its script code, kind) in execution order

    def raw(self):
        return b"".join(self.pieces)

    def add(self, b):
        self.pieces.append(b)


def build_sig_script(rng, xonly, allow_codesep, nsig=None, fill=True):
    """<k1> CHECKSIGVERIFY [filler] [CODESEPARATOR] <k2> CHECKSIGVERIFY ... <kn> CHECKSIG"""
    ss = SigScript()
    nsig = nsig or rng.weighted([(4, 1), (4, 2), (2, 3), (1, 5)])
    code_start = 0
    codesep_first = False
    if allow_codesep == "first" and rng.chance(40):
        ss.add(bytes([0xab]))
        code_start = 1
        codesep_first = True
    for j in range(nsig):
        ki = rng.below(len(KEYS))
        if fill and rng.chance(12):
            # ballast: script codes longer than 512 bytes are legal and rare
            ss.add(S.asm([rng.bytes(rng.choice([300, 513, 520])), "OP_DROP"]))
        if fill and rng.chance(45):
            ss.add(S.asm(filler(rng, rng.range(1, 3))))
        if allow_codesep == "any" and j > 0 and rng.chance(35):
            ss.add(bytes([0xab]))
            code_start = len(ss.raw())
        key = pub(ki)[1] if xonly else pub(ki)[0]
        last = j == nsig - 1
        ss.add(S.push(key) + bytes([0xac if last else 0xad]))
        ss.sigops.append((ki, code_start))
    ss.codesep_first = codesep_first
    return ss


def make(rng, kind=None, damage=False):
    """-> {"tx": hex, "txin": hex, "kind": kind, "opts": [...]}"""
    # one spend in eight is signed with high-S ECDSA signatures (as much of the chain before 2015): valid, and
    # accepted once the LOW_S policy flag is switched off
    ecc.HIGH_S = rng.chance(12)
    try:
        out = _make(rng, kind, damage)
    finally:
        hs, ecc.HIGH_S = ecc.HIGH_S, False
    if hs and out["kind"] not in ("p2tr", "tapscript"):
        for i, o in enumerate(out["opts"]):
            if o.startswith("--modify-flags="):
                out["opts"][i] = o + ",-LOW_S"
                break
        else:
            out["opts"].append("--modify-flags=-LOW_S")
        out["high_s"] = True
    return out


def _make(rng, kind=None, damage=False):
    kind = kind or rng.weighted([(3, "p2pkh"), (2, "multisig"), (3, "p2sh-multisig"), (2, "p2sh-generic"), (1, "p2sh-empty"), (1, "p2wsh-template"), (2, "hashlock"), (2, "legacy-codesep"), (2, "p2wpkh"),
                                 (1, "p2sh-p2wpkh"), (4, "p2wsh"), (2, "p2sh-p2wsh"), (2, "p2tr"), (7, "tapscript")])
    opts = []
    select = None
    if kind == "p2pkh":
        k = rng.below(len(KEYS))
        spk = bytes([0x76, 0xa9, 0x14]) + T.hash160(pub(k)[0]) + bytes([0x88, 0xac])
        fund = funding(spk)
        extra = rng.weighted([(6, 0), (2, 1), (2, 2)])
        ours = rng.below(extra + 1)
        tx = spending_skeleton(fund, rng, rng.range(1, 2), extra, ours)
        sig = ecc.ecdsa_sign(KEYS[k], sighash_legacy(tx, ours, spk))
        tx.vin[ours].script_sig = S.push(sig) + S.push(pub(k)[0])
        if extra and rng.chance(50):
            select = ours
    elif kind in ("multisig", "p2sh-multisig"):
        n = rng.range(1, 3)
        m = rng.range(1, n)
        ks = [rng.below(len(KEYS)) for _ in range(n)]
        ms = S.push_num(m) + b"".join(S.push(pub(k)[0]) for k in ks) + S.push_num(n) + bytes([0xae])
        if kind == "p2sh-multisig" and rng.chance(40):
            ms = S.asm(filler(rng, rng.range(1, 2))) + ms
        spk = ms if kind == "multisig" else bytes([0xa9, 0x14]) + T.hash160(ms) + bytes([0x87])
        fund = funding(spk)
        tx = spending_skeleton(fund, rng)
        h = sighash_legacy(tx, 0, ms)
        signers = sorted(range(n))[:m] if rng.chance(50) else sorted(range(n))[n - m:]
        sigs = [ecc.ecdsa_sign(KEYS[ks[i]], h) for i in signers]
        ssig = b"\x00" + b"".join(S.push(s) for s in sigs)
        if kind == "p2sh-multisig":
            ssig += S.push(ms)
        tx.vin[0].script_sig = ssig
    elif kind == "p2sh-generic":
        pre = None
        if rng.chance(30):
            # a redeem script that itself has the shape of a standard output template
            pre = rng.bytes(rng.range(1, 30))
            red = rng.choice([bytes([0xa9, 0x14]) + T.hash160(pre) + bytes([0x87]),                       # P2SH form
                              bytes([0x76, 0xa9, 0x14]) + T.hash160(pre) + bytes([0x88, 0x75, 0x51]),     # P2PKH-like: DUP HASH160 <h> EQUALVERIFY DROP 1
                              bytes([0xa8, 0x20]) + sha256(pre) + bytes([0x87])])                          # SHA256 <h> EQUAL
        else:
            red = S.asm(filler(rng, rng.range(1, 6)) + [1])
        spk = bytes([0xa9, 0x14]) + T.hash160(red) + bytes([0x87])
        fund = funding(spk)
        tx = spending_skeleton(fund, rng)
        pushes = b"".join(S.push_num(rng.range(0, 16)) for _ in range(rng.range(0, 3)))
        if pre is not None:
            pushes += S.push(pre) if len(pre) > 1 or not (1 <= pre[0] <= 16 or pre[0] == 0x81) else S.push(pre + b"\x00")
            if len(pre) == 1 and (1 <= pre[0] <= 16 or pre[0] == 0x81):
                # keep the push minimal: use a two-byte preimage instead
                pre = pre + b"\x00"
                red = bytes([0xa9, 0x14]) + T.hash160(pre) + bytes([0x87])
                spk = bytes([0xa9, 0x14]) + T.hash160(red) + bytes([0x87])
                fund = funding(spk)
                tx = spending_skeleton(fund, rng)
        tx.vin[0].script_sig = pushes + S.push(red)
    elif kind == "p2sh-empty":
        # the empty redeem script: the scriptSig ends with OP_0 after some other pushes
        spk = bytes([0xa9, 0x14]) + T.hash160(b"") + bytes([0x87])
        fund = funding(spk)
        tx = spending_skeleton(fund, rng)
        pushes = b"".join(rng.choice([S.push_num(rng.range(1, 16)), S.push(rng.bytes(rng.range(2, 20)))]) for _ in range(rng.range(1, 3)))
        tx.vin[0].script_sig = pushes + b"\x00"
    elif kind == "legacy-codesep":
        ss = build_sig_script(rng, xonly=False, allow_codesep="any", fill=True)
        spk = ss.raw()
        fund = funding(spk)
        tx = spending_skeleton(fund, rng)
        sigs = [ecc.ecdsa_sign(KEYS[ki], sighash_legacy(tx, 0, spk[start:])) for (ki, start) in ss.sigops]
        tx.vin[0].script_sig = b"".join(S.push(s) for s in reversed(sigs))
        opts = ["--modify-flags=-CONST_SCRIPTCODE"]
    elif kind in ("p2wpkh", "p2sh-p2wpkh"):
        k = rng.below(len(KEYS))
        prog = bytes([0x00, 0x14]) + T.hash160(pub(k)[0])
        spk = prog if kind == "p2wpkh" else bytes([0xa9, 0x14]) + T.hash160(prog) + bytes([0x87])
        fund = funding(spk)
        tx = spending_skeleton(fund, rng)
        code = bytes([0x76, 0xa9, 0x14]) + T.hash160(pub(k)[0]) + bytes([0x88, 0xac])
        sig = ecc.ecdsa_sign(KEYS[k], sighash_v0(tx, 0, code, fund.vout[0].value))
        tx.vin[0].witness = [sig, pub(k)[0]]
        if kind == "p2sh-p2wpkh":
            tx.vin[0].script_sig = S.push(prog)
    elif kind in ("p2wsh", "p2sh-p2wsh"):
        ss = build_sig_script(rng, xonly=False, allow_codesep="any", fill=True)
        ws = ss.raw()
        prog = bytes([0x00, 0x20]) + sha256(ws)
        spk = prog if kind == "p2wsh" else bytes([0xa9, 0x14]) + T.hash160(prog) + bytes([0x87])
        fund = funding(spk)
        tx = spending_skeleton(fund, rng)
        sigs = [ecc.ecdsa_sign(KEYS[ki], sighash_v0(tx, 0, ws[start:], fund.vout[0].value)) for (ki, start) in ss.sigops]
        tx.vin[0].witness = list(reversed(sigs)) + [ws]
        if kind == "p2sh-p2wsh":
            tx.vin[0].script_sig = S.push(prog)
    elif kind == "hashlock":
        # a bare hash lock; in a share of the cases scriptSig and scriptPubKey have exactly the same length
        which = rng.choice(["sha256", "hash160", "hash256", "ripemd160"])
        spk_len = {"sha256": 35, "hash256": 35, "hash160": 23, "ripemd160": 23}[which]
        n = spk_len - 1 if rng.chance(40) else rng.range(2, 75)
        pre = rng.bytes(n - 1) + b"\xab"
        h = {"sha256": sha256(pre), "hash256": T.dsha(pre), "hash160": T.hash160(pre), "ripemd160": T.ripemd160(pre)}[which]
        opc = {"sha256": 0xa8, "hash256": 0xaa, "hash160": 0xa9, "ripemd160": 0xa6}[which]
        spk = bytes([opc]) + S.push(h) + bytes([0x87])
        if which == "hash160":
            spk = bytes([0x61]) + spk          # OP_NOP in front: not the P2SH pattern
        fund = funding(spk)
        tx = spending_skeleton(fund, rng)
        tx.vin[0].script_sig = S.push(pre) if not (which == "hash160" and n == spk_len - 1) else S.push(pre + b"\xcd")
    elif kind == "p2wsh-template":
        # a witness script that has the byte shape of a standard output template (a hash lock), no signature
        # (btcdeb re-parses witness items from hex text: an item whose hex is all decimal digits becomes a number - a
        # C03 matter; the preimages used here always contain a hex letter)
        pre = rng.choice([bytes([0x5a, 0x75, 0x51]), bytes([0x4f, 0x75, 0x51]), bytes([0x00, 0x75, 0x5b]), rng.bytes(rng.range(2, 20)) + b"\xab"])
        ws = rng.choice([bytes([0xa9, 0x14]) + T.hash160(pre) + bytes([0x87]),
                         bytes([0x76, 0xa9, 0x14]) + T.hash160(pre) + bytes([0x88, 0x75, 0x51]),
                         bytes([0xa8, 0x20]) + sha256(pre) + bytes([0x87])])
        prog = bytes([0x00, 0x20]) + sha256(ws)
        fund = funding(prog)
        tx = spending_skeleton(fund, rng)
        tx.vin[0].witness = [S.scriptnum(rng.range(17, 900)) for _ in range(rng.range(0, 1))] + [pre, ws]
    elif kind in ("p2tr", "tapscript"):
        ik = rng.below(len(KEYS))
        # Merkle paths up to the maximum a control block can carry (128 nodes)
        depth = rng.weighted([(4, 0), (6, 1), (4, 2), (2, 3), (2, 4), (2, rng.choice([8, 15, 16, 17, 18, 31, 32, 33, 64, 127, 128]))]) if kind == "tapscript" else rng.choice([None, 1])
        # (key path + annex is left out: btcdeb pushes the annex onto the stack there and fails at once - a C03 matter)
        annex = (b"\x50" + rng.bytes(rng.range(0, 20))) if (rng.chance(25) and kind == "tapscript") else None
        if kind == "tapscript":
            ss = build_sig_script(rng, xonly=True, allow_codesep="first", fill=True)
            leaf = ss.raw()
            lh = tapleaf_hash(leaf)
            node = lh
            path = []
            for _ in range(depth):
                sib = rng.bytes(32)
                path.append(sib)
                node = tapbranch(node, sib)
            root = node
        else:
            root = rng.bytes(32) if depth else None
        q, parity, dtweaked = ecc.taproot_tweak(KEYS[ik], root)
        internal_x = ecc.pub_xonly(KEYS[ik])
        if kind == "tapscript" and rng.chance(15):
            # a well-known constant as internal key: the BIP341 point nobody knows the secret of (script path only)
            internal_x = ecc.NUMS_H
            q, parity = ecc.taproot_tweak_pub(internal_x, root)
        spk = bytes([0x51, 0x20]) + q
        fund = funding(spk)
        tx = spending_skeleton(fund, rng)
        if kind == "p2tr":
            ht = rng.choice([0, 0, 1])
            sig = ecc.schnorr_sign(dtweaked, sighash_taproot(tx, 0, [fund.vout[0]], ht, annex))
            tx.vin[0].witness = [sig + (bytes([ht]) if ht else b"")]
        else:
            sigs = []
            for (ki, start) in ss.sigops:
                ht = rng.choice([0, 0, 1])
                cp = 0 if ss.codesep_first else 0xffffffff
                s = ecc.schnorr_sign(KEYS[ki], sighash_taproot(tx, 0, [fund.vout[0]], ht, annex, lh, cp))
                sigs.append(s + (bytes([ht]) if ht else b""))
            control = bytes([0xc0 | parity]) + internal_x + b"".join(path)
            tx.vin[0].witness = list(reversed(sigs)) + [leaf, control]
        if annex is not None:
            tx.vin[0].witness.append(annex)
    else:
        raise ValueError(kind)
    if kind == "tapscript" and damage:
        # a hand-built spend that does not verify: one byte of the control block (a path node, the internal key or the
        # leaf-version/parity byte) or of the leaf is wrong, so the commitment check fails at its last step
        wit = tx.vin[0].witness
        ci = len(wit) - 1 - (1 if annex is not None else 0)
        which = rng.choice(["control", "control", "leaf"])
        tgt = ci if which == "control" else ci - 1
        b = bytearray(wit[tgt])
        pos = rng.below(len(b)) if which == "leaf" else rng.choice([0, rng.range(1, 32), len(b) - 1])
        b[pos] ^= rng.choice([0x01, 0x80])
        wit[tgt] = bytes(b)
    out = {"tx": tx.ser().hex(), "txin": fund.ser().hex(), "kind": kind, "opts": opts}
    if select is not None:
        out["select"] = select
    return out


def make_nosig(wrap, script, items, depth=1):
    """a spend whose executed script is `script` under the WITNESS_V0 or TAPSCRIPT rules, with `items` as its
    initial stack and no signature anywhere: deterministic in its arguments (no randomness)"""
    class _R:                       # spending_skeleton wants an rng: fixed choices
        def bytes(self, n):
            return bytes([0x42]) * n

        def choice(self, seq):
            return seq[0]
    if wrap == "p2wsh":
        spk = bytes([0x00, 0x20]) + sha256(script)
        fund = funding(spk)
        tx = spending_skeleton(fund, _R())
        tx.vin[0].witness = list(items) + [script]
        return {"tx": tx.ser().hex(), "txin": fund.ser().hex(), "commit_steps": 0}
    if wrap == "tapscript":
        node = tapleaf_hash(script)
        path = []
        for i in range(depth):
            sib = sha256(b"btcsim-sibling-%d" % i)
            path.append(sib)
            node = tapbranch(node, sib)
        q, parity, _ = ecc.taproot_tweak(KEYS[0], node)
        spk = bytes([0x51, 0x20]) + q
        fund = funding(spk)
        tx = spending_skeleton(fund, _R())
        control = bytes([0xc0 | parity]) + ecc.pub_xonly(KEYS[0]) + b"".join(path)
        tx.vin[0].witness = list(items) + [script, control]
        return {"tx": tx.ser().hex(), "txin": fund.ser().hex(), "commit_steps": depth + 1}
    raise ValueError(wrap)
