"""btcdeb sessions: scenario -> world, Run -> parsed commands and observations.

A *scenario* is the JSON-able description every check generates, evaluates,
shrinks and stores in replay files:

  {"script": "<hex>", "stack": ["<hex>", ...], "opts": ["-z", ...],
   "spend": null | {"dataset": name} | {"tx": hex, "txin": hex, "select": n},
   "sched": [[kind, arg...], ...],        # the user's schedule
   "faults": [{"kind": ..., ...}, ...],   # see apply_faults
   "tty": [1, 1], "env": {...}, "observe": true}

Only facts of DESIGN Appendix A are used to read the tool's replies.
"""
import os
import re

from . import proto

OBSERVERS = ["stack", "altstack", "vfexec", "print"]
STATE_KINDS = ("step", "rewind", "exec")

DATASETS = ["p2pkh", "p2sh-p2wpkh", "p2sh-multisig-2-of-2", "p2sh-multisig-invalid-order", "p2tr", "p2ts"]
_dataset_cache = {}


def dataset_files(name, repo=proto.REPO_ROOT):
    key = (repo, name)
    if key not in _dataset_cache:
        out = []
        for suffix in ("-tx", "-in"):
            p = os.path.join(repo, "doc", "txs", name + suffix)
            try:
                data = open(p, "rb").read().decode(proto.L1)
                out.append({"path": "doc/txs/" + name + suffix, "exists": True, "content": data})
            except OSError:
                out.append({"path": "doc/txs/" + name + suffix, "exists": False, "content": ""})
        _dataset_cache[key] = out
    return [dict(f) for f in _dataset_cache[key]]


def render_item(item):
    """schedule item -> the line the user types (None = EOF)"""
    k = item[0]
    if k in ("step", "rewind", "stack", "altstack", "vfexec", "print"):
        return k
    if k == "sync":
        return "stack"      # a harmless line whose only purpose is to be followed by the observers
    if k == "exec":
        return "exec " + " ".join(item[1:]) if len(item) > 1 else "exec"
    if k == "tf":
        return "tf " + " ".join(item[1:]) if len(item) > 1 else "tf"
    if k == "help":
        return "help " + item[1] if len(item) > 1 and item[1] else "help"
    if k == "blank":
        return item[1] if len(item) > 1 else ""
    if k == "comment":
        return "#" + (item[1] if len(item) > 1 else " note")
    if k == "unknown":
        return item[1] if len(item) > 1 else "frobnicate"
    if k == "raw":
        return item[1]
    if k == "eof":
        return None
    raise ValueError(item)


# the command line is an input of the environment like any other: the same options can be written in every way
# getopt_long accepts (--name=value, --name value, -cvalue, -c value, an unambiguous prefix of the long name,
# clustered flags, options after the positional arguments); a session must not depend on the spelling
OPTIONS = {"help": ("h", 0), "quiet": ("q", 0), "tx": ("x", 1), "txin": ("i", 1), "modify-flags": ("f", 1), "select": ("s", 1),
           "pretend-valid": ("P", 1), "default-flags": ("d", 0), "allow-disabled-opcodes": ("z", 0), "version": ("V", 0),
           "dataset": ("X", 2), "verbose": ("v", 0), "debug": ("D", 1)}
SHORT = {v[0]: (k, v[1]) for k, v in OPTIONS.items()}


def _abbrev(rng, name):
    ok = [name[:n] for n in range(1, len(name)) if sum(1 for o in OPTIONS if o.startswith(name[:n])) == 1]
    return rng.choice(ok) if ok and rng.chance(50) else name


def respell_argv(opts, positional, style, permute=True):
    from .prng import Rng
    rng = Rng(style)
    parsed = []
    for o in opts:
        if o.startswith("--") and len(o) > 2:
            name, eq, val = o[2:].partition("=")
            if name not in OPTIONS:
                return list(opts) + list(positional)
            parsed.append((name, val if eq else None))
        elif o.startswith("-") and len(o) >= 2 and o[1] in SHORT:
            name, kind = SHORT[o[1]]
            if kind == 0 and len(o) > 2:
                return list(opts) + list(positional)      # a cluster already: leave the line alone
            parsed.append((name, o[2:] if len(o) > 2 else None))
        else:
            return list(opts) + list(positional)
    out = []
    for (name, val) in parsed:
        c, kind = OPTIONS[name]
        if kind == 0:
            out.append(rng.choice([["--" + name], ["-" + c], ["--" + _abbrev(rng, name)]]))
        elif not val:
            out.append(["--" + name + ("=" if val == "" else "")])          # empty or absent value: as written
        elif kind == 2:
            out.append(rng.choice([["--" + name + "=" + val], ["-" + c + val], ["-" + c, val], ["--" + _abbrev(rng, name) + "=" + val]]))
        else:
            out.append(rng.choice([["--" + name + "=" + val], ["--" + name, val], ["-" + c + val], ["-" + c, val],
                                   ["--" + _abbrev(rng, name) + "=" + val], ["--" + _abbrev(rng, name), val]]))
    # clustered flags: "-q" "-z" -> "-qz"; a flag may also lead a short option with a value: "-q" "-fX" -> "-qfX"
    merged = []
    for g in out:
        if merged and len(merged[-1]) == 1 and len(merged[-1][0]) >= 2 and merged[-1][0][0] == "-" and merged[-1][0][1] != "-" \
                and all(SHORT.get(ch, ("", 1))[1] == 0 for ch in merged[-1][0][1:]) \
                and g[0][0] == "-" and g[0][1:2] != "-" and rng.chance(50):
            merged[-1] = [merged[-1][0] + g[0][1:]] + g[1:]
        else:
            merged.append(list(g))
    letters = [OPTIONS[n][0] for (n, _) in parsed]
    front, back = [], []
    can_move = permute and positional and len(set(letters)) == len(letters) and not any(p.startswith("-") for p in positional)
    for g in merged:
        (back if can_move and rng.chance(30) else front).append(g)
    return [a for g in front for a in g] + list(positional) + [a for g in back for a in g]


def build_world(scn, sched=None, observe=None, faults=True):
    """The world of a scenario.  `sched` overrides the scenario's schedule
    (reference runs); observers follow every item whose kind changes state when
    observe is on, except when the next item is a blank line (which must repeat
    the state-changing command itself)."""
    argv = list(scn.get("opts", []))
    sp = scn.get("spend")
    files = [{"path": ".btcdeb_history", "exists": True, "content": scn.get("history", "")}]
    if sp:
        if "dataset" in sp:
            argv.append("--dataset=" + sp["dataset"])
            files += dataset_files(sp["dataset"])
        else:
            if "tx" in sp:
                argv.append("--tx=" + sp["tx"])
            if "txin" in sp:
                argv.append("--txin=" + sp["txin"])
            if sp.get("select") is not None:
                argv.append("--select=%d" % sp["select"])
    nopt = len(argv)
    stdin_script = scn.get("script_on_stdin", False)
    if scn.get("script") is not None and not stdin_script:
        argv.append("0x" + scn["script"])
    elif scn.get("script_text") is not None and not stdin_script and scn.get("script_text_in_argv", True):
        argv.append(scn["script_text"])
    argv += ["0x" + s for s in scn.get("stack", [])]
    if scn.get("argv_style") is not None:
        argv = respell_argv(argv[:nopt], argv[nopt:], scn["argv_style"], permute=not scn.get("extra_argv"))
    if scn.get("extra_argv"):
        argv += scn["extra_argv"]
    tty = scn.get("tty", [1, 1])
    w = proto.new_world("btcdeb", argv, tty=(tty[0], tty[1]))
    w["env"] = dict(scn.get("env", {}))
    if scn.get("fdkind"):
        w["fdkind"] = scn["fdkind"]       # what the non-terminal ends are (pipe, regular file, character device, socket)
    for k in ("cap", "alarm_s"):
        if scn.get(k):
            w[k] = scn[k]
    if scn.get("probe_light"):
        w["probe"] = 2
    w["files"] = files
    if stdin_script and scn.get("script") is not None:
        w["stdin"]["data"] = "0x" + scn["script"] + scn.get("stdin_eol", "\n")
    items = scn.get("sched", []) if sched is None else sched
    obs = scn.get("observe", True) if observe is None else observe
    lines = []
    tags = []       # parallel: (item_index, role) role in 'cmd' | observer name
    sig_at = []
    for i, it in enumerate(items):
        if it[0] == "sigint":
            sig_at.append(len(lines))       # Ctrl-C at the prompt that would have received the next line
            continue
        ln = render_item(it)
        lines.append(ln)
        tags.append((i, "cmd"))
        if ln is None:
            continue
        nxt = items[i + 1] if i + 1 < len(items) else None
        if obs and it[0] != "raw_noobs" and not (nxt is not None and blankish(nxt)):
            kind = effective_kind(items, i)
            if kind in STATE_KINDS or it[0] in ("sync", "tf", "unknown", "help", "raw"):
                for o in OBSERVERS:
                    lines.append(o)
                    tags.append((i, o))
    w["user"] = lines
    w["_tags"] = tags
    if sig_at:
        w["sigints"] = sig_at
    if scn.get("discard_stdout"):
        w["discard_stdout"] = True
    if faults:
        apply_faults(w, scn.get("faults", []))
    return w


def blankish(item):
    """lines that are empty once kerl has stripped comments and whitespace: they
    re-execute the previous non-empty line and are not remembered themselves"""
    return item[0] in ("blank", "comment")


def effective_kind(items, i):
    k = items[i][0]
    if not blankish(items[i]):
        return k
    j = i - 1
    while j >= 0:
        if blankish(items[j]):
            j -= 1
            continue
        return items[j][0]
    return "none"


def apply_faults(w, faults):
    """Faults are attached to the file / stream / op they hit."""
    hist = w["files"][0]
    for f in faults:
        k = f["kind"]
        if k == "HIST_OPEN_R":
            hist.setdefault("open_fail", []).append(0)
            hist["open_errno"] = f.get("errno", 13)
        elif k == "HIST_OPEN_A":
            # the n-th command's append (open index n+1: index 0 is the read at start)
            hist.setdefault("open_fail", []).append(1 + f.get("at", 0))
            hist["open_errno"] = f.get("errno", 13)
        elif k == "HIST_OPEN_ALL":
            hist["open_fail"] = [-1]
            hist["open_errno"] = f.get("errno", 30)
        elif k == "HIST_ABSENT":
            hist["exists"] = False
        elif k == "HIST_WRITE":
            hist["write_fail_after"] = f.get("after", 0)
            hist["write_errno"] = f.get("errno", 28)
        elif k == "HIST_CLOSE":
            hist["close_errno"] = f.get("errno", 5)
        elif k == "HIST_CONTENT":
            hist["content"] = f["content"]
        elif k == "HIST_READ":
            hist["read_fail_after"] = f.get("after", 0)
            hist["read_errno"] = f.get("errno", 5)
        elif k == "SINK_ERR":
            w["sinks"][str(f.get("stream", 1))] = [f.get("after", 0), f.get("errno", 32)]
        elif k == "URANDOM_OPEN":
            w["urandom"]["absent_errno"] = f.get("errno", 2)
        elif k == "URANDOM_SHORT":
            w["urandom"]["short_after"] = f.get("after", 0)
        elif k.startswith("DATASET_"):
            for fl in w["files"][1:]:
                if fl["path"].endswith(f.get("which", "-tx")):
                    if k == "DATASET_MISSING":
                        fl["exists"] = False
                    elif k == "DATASET_EMPTY":
                        fl["content"] = ""
                    elif k == "DATASET_SHORT":
                        fl["content"] = fl["content"][:f.get("keep", 10)]
                    elif k == "DATASET_GARBAGE":
                        fl["content"] = f.get("content", "zz")
                    elif k == "DATASET_READ":
                        fl["read_fail_after"] = f.get("after", 0)
                    elif k == "DATASET_CHUNK":
                        fl["read_chunk"] = f.get("chunk", 1)
        elif k == "STDIN":
            si = w["stdin"]
            if "data" in f:
                si["data"] = f["data"]
            if "chunks" in f:
                si["chunks"] = f["chunks"]
            if "end_errno" in f:
                si["end_errno"] = f["end_errno"]
        elif k == "ENV":
            w["env"][f["name"]] = f.get("value", "1")
        elif k in ("STEP_FAIL", "STEP_THROW", "EXEC_FAIL", "EXEC_THROW", "EOF_PROMPT", "EOF_CONT"):
            pass        # placed by the generator inside script / schedule; listed for the counters
        else:
            raise ValueError("unknown fault kind " + k)


# ------------------------------------------------------------------ parsing
_stack_line = re.compile(r"^<(\d\d+)>\t([0-9a-f]*)(\t\(top\))?$")
_vf_line = re.compile(r"^<(\d\d+)>\t([0-9a-f]{2})$")


def parse_stack(out):
    """observer 'stack'/'altstack' output -> list of hex items, bottom first; None if unparsable"""
    txt = out.decode(proto.L1)
    lines = [l for l in txt.split("\n") if l != ""]
    if lines == ["- empty stack -"]:
        return []
    items = []
    for i, l in enumerate(lines):
        m = _stack_line.match(l)
        if not m or int(m.group(1)) != i + 1 or bool(m.group(3)) != (i == 0):
            return None
        items.append(m.group(2))
    items.reverse()
    return items


def parse_vfexec(out):
    txt = out.decode(proto.L1)
    lines = [l for l in txt.split("\n") if l != ""]
    if lines == ["- empty stack -"]:
        return []
    items = []
    for i, l in enumerate(lines):
        m = _vf_line.match(l)
        if not m or int(m.group(1)) != i + 1:
            return None
        items.append(m.group(2))
    items.reverse()
    return items


def parse_print(out):
    """-> [(marked, text)], None if some line has neither prefix"""
    txt = out.decode(proto.L1)
    res = []
    for l in txt.split("\n"):
        if l == "":
            continue
        if l.startswith(" -> "):
            res.append((True, l[4:]))
        elif l.startswith("    "):
            res.append((False, l[4:]))
        else:
            return None
    return res


def err_lines(seg):
    return seg.err.decode(proto.L1).split("\n")


def reply(kind, seg):
    """classify the tool's reply to a state-changing command (Appendix A.1):
    ('accepted'|'refused'|'failed'|'usage'|'invalid', text)"""
    el = err_lines(seg)
    if kind == "step":
        for l in el:
            if l.startswith("at end of script"):
                return ("refused", l)
        for l in el:
            if l.startswith("error:"):
                return ("failed", l[6:].strip())
        return ("accepted", "")
    if kind == "rewind":
        for l in el:
            if l.startswith("error:"):
                return ("refused", l[6:].strip())
        return ("accepted", "")
    if kind == "exec":
        for l in el:
            if l.startswith("error: invalid opcode"):
                return ("invalid", l)
        for l in el:
            if l.startswith("Error:") or l.startswith("error:"):
                return ("failed", l[6:].strip())
        if seg.out.startswith(b"syntax: exec"):
            return ("usage", "")
        return ("accepted", "")
    return ("other", "")


class Cmd:
    __slots__ = ("index", "item", "kind", "seg", "pre", "post", "obs", "reply", "echo")

    def __init__(self):
        self.obs = {}
        self.pre = None
        self.post = None
        self.reply = None
        self.echo = None


_echo_re = re.compile(r"^(#\d{4} .*|<<< .* >>>)$")


def last_echo(out):
    """the '#NNNN op' (or header) line a step/rewind prints after its table"""
    lines = [l for l in out.decode(proto.L1).split("\n") if l != ""]
    if lines and _echo_re.match(lines[-1]) and not (" | " in lines[-1]):
        return lines[-1]
    return None


def parse_session(world, run, items):
    """-> (startup Cmd-like dict, [Cmd]) aligning the run's segments with the schedule.
    Works on truncated runs (crash): later commands simply have no segment."""
    tags = world["_tags"]
    segs = run.segs[1:]         # segment k answers user line k
    cmds = []
    by_item = {}
    for li, (idx, role) in enumerate(tags):
        seg = segs[li] if li < len(segs) else None
        nxt = segs[li + 1] if li + 1 < len(segs) else None
        if role == "cmd":
            c = Cmd()
            c.index = idx
            c.item = items[idx]
            c.kind = effective_kind(items, idx)
            c.seg = seg
            c.pre = seg.probe if seg is not None else None
            c.post = nxt.probe if nxt is not None else None
            if seg is not None and not seg.eof and seg.line is not None:
                if nxt is None and not run.normal():
                    # the process died while answering this command
                    c.reply = ("crashed", run.classify()[0])
                else:
                    c.reply = reply(c.kind, seg) if c.kind in STATE_KINDS else ("other", "")
                c.echo = last_echo(seg.out)
            cmds.append(c)
            by_item[idx] = c
        else:
            c = by_item[idx]
            if seg is not None and seg.line == role:
                if role in ("stack", "altstack"):
                    c.obs[role] = parse_stack(seg.out)
                elif role == "vfexec":
                    c.obs[role] = parse_vfexec(seg.out)
                else:
                    c.obs[role] = parse_print(seg.out)
                c.obs[role + "_raw"] = bytes(seg.out)
                # the state after the observer (purity of observers)
                c.obs[role + "_post"] = nxt.probe if nxt is not None else None
                c.obs[role + "_pre"] = seg.probe
    return cmds


# fields of the white-box probe that make up "the execution state" (snapshot
# depths are the log, not the state)
WB_STATE = ["done", "curr_op_seq", "stack", "altstack", "vfexec", "script", "pc", "pend", "pbegincodehash",
            "nOpCount", "opcode_pos", "codesep_pos", "weight_left_init", "weight_left", "tapleaf_init", "tapleaf",
            "is_p2sh", "p2shstack", "successor", "sigversion", "flags", "tce_i", "next", "next_opcode", "next_push"]


def wb_state(probe):
    if not probe or probe.get("env") != "ok":
        return None
    return tuple(probe.get(k, "") for k in WB_STATE)


def wb_diff(a, b):
    if a is None or b is None:
        return ["<no probe>"]
    return ["%s: %s != %s" % (k, x[:80], y[:80]) for k, x, y in zip(WB_STATE, a, b) if x != y]


def bb_state(cmd):
    """black-box state from the observers that followed a command, or None"""
    o = cmd.obs
    if not all(k in o for k in OBSERVERS):
        return None
    return (tuple(o["stack"]) if o["stack"] is not None else None,
            tuple(o["altstack"]) if o["altstack"] is not None else None,
            tuple(o["vfexec"]) if o["vfexec"] is not None else None,
            tuple(o["print"]) if o["print"] is not None else None)


def parse_pane(out):
    """the script|stack table printed after step / rewind / exec -> (left entries, right entries, lcap) or None"""
    lines = out.decode(proto.L1).split("\n")
    for i in range(len(lines) - 1):
        if lines[i].startswith("script") and "| " in lines[i] and "-+-" in lines[i + 1] and set(lines[i + 1]) <= set("-+"):
            lcap = lines[i + 1].index("-+-")
            left, right = [], []
            for row in lines[i + 2:]:
                if len(row) < lcap + 2 or row[lcap + 1:lcap + 3] != "| ":
                    break
                l = row[:lcap + 1].rstrip()
                r = row[lcap + 3:].strip()
                if l:
                    left.append(l)
                if r:
                    right.append(r)
            return left, right, lcap
    return None
