"""Bitcoin transactions: (de)serialisation, just enough for the harness to know
which bytes a spend session will execute and to build synthetic spends."""
import hashlib


def sha256(b):
    return hashlib.sha256(b).digest()


def dsha(b):
    return sha256(sha256(b))


def ripemd160(b):
    try:
        return hashlib.new("ripemd160", b).digest()
    except ValueError:
        from . import ripemd
        return ripemd.ripemd160(b)


def hash160(b):
    return ripemd160(sha256(b))


def varint(n):
    if n < 0xfd:
        return bytes([n])
    if n <= 0xffff:
        return b"\xfd" + n.to_bytes(2, "little")
    if n <= 0xffffffff:
        return b"\xfe" + n.to_bytes(4, "little")
    return b"\xff" + n.to_bytes(8, "little")


class Reader:
    def __init__(self, b):
        self.b = b
        self.i = 0

    def take(self, n):
        if self.i + n > len(self.b):
            raise ValueError("truncated")
        r = self.b[self.i:self.i + n]
        self.i += n
        return r

    def u32(self):
        return int.from_bytes(self.take(4), "little")

    def u64(self):
        return int.from_bytes(self.take(8), "little")

    def varint(self):
        c = self.take(1)[0]
        if c < 0xfd:
            return c
        if c == 0xfd:
            return int.from_bytes(self.take(2), "little")
        if c == 0xfe:
            return int.from_bytes(self.take(4), "little")
        return int.from_bytes(self.take(8), "little")

    def varbytes(self):
        return self.take(self.varint())


class TxIn:
    def __init__(self, prev_hash=b"\0" * 32, prev_n=0, script_sig=b"", sequence=0xffffffff, witness=None):
        self.prev_hash = prev_hash      # internal byte order
        self.prev_n = prev_n
        self.script_sig = script_sig
        self.sequence = sequence
        self.witness = witness or []


class TxOut:
    def __init__(self, value=0, spk=b""):
        self.value = value
        self.spk = spk

    def ser(self):
        return self.value.to_bytes(8, "little") + varint(len(self.spk)) + self.spk


class Tx:
    def __init__(self, version=2, vin=None, vout=None, locktime=0):
        self.version = version
        self.vin = vin or []
        self.vout = vout or []
        self.locktime = locktime

    @staticmethod
    def parse(raw):
        r = Reader(raw)
        t = Tx()
        t.version = r.u32()
        n = r.varint()
        segwit = False
        if n == 0:
            flag = r.take(1)[0]
            if flag != 1:
                raise ValueError("bad segwit flag")
            segwit = True
            n = r.varint()
        t.vin = []
        for _ in range(n):
            h = r.take(32)
            idx = r.u32()
            ss = r.varbytes()
            seq = r.u32()
            t.vin.append(TxIn(h, idx, ss, seq))
        t.vout = []
        for _ in range(r.varint()):
            v = r.u64()
            t.vout.append(TxOut(v, r.varbytes()))
        if segwit:
            for i in t.vin:
                i.witness = [r.varbytes() for _ in range(r.varint())]
        t.locktime = r.u32()
        return t

    def has_witness(self):
        return any(i.witness for i in self.vin)

    def ser(self, witness=True):
        w = witness and self.has_witness()
        out = bytearray(self.version.to_bytes(4, "little"))
        if w:
            out += b"\x00\x01"
        out += varint(len(self.vin))
        for i in self.vin:
            out += i.prev_hash + i.prev_n.to_bytes(4, "little") + varint(len(i.script_sig)) + i.script_sig + i.sequence.to_bytes(4, "little")
        out += varint(len(self.vout))
        for o in self.vout:
            out += o.ser()
        if w:
            for i in self.vin:
                out += varint(len(i.witness))
                for item in i.witness:
                    out += varint(len(item)) + item
        out += self.locktime.to_bytes(4, "little")
        return bytes(out)

    def txid(self):
        return dsha(self.ser(witness=False))      # internal byte order
