"""C08 - non-interactive btcdeb prints the final stack and never exits abnormally.

The whole process is simulated in every mode-selecting environment (which end
is a terminal, DEBUG_SET_PIPE_*, quiet / debug options, DEBUG_* variables,
script on stdin or in argv, stdin delivered in chunks, without newline, with
CRLF, over-long, empty or failing).  Reference: the same script stepped
interactively in the simulator.
"""
import re

from . import gen as G, proto, ref as refmod, script as S, session, workloads
from .core import Eval

PROP = "C08"
LEVEL = "exploration"
RULE = ("case = one generated script/stack/flags (a share of them failing by script error or by C++ exception) or dataset spend x one non-interactive "
        "configuration (which of stdin/stdout is not a terminal, by isatty or by DEBUG_SET_PIPE_*; --quiet; --debug subset; DEBUG_* values; stdin delivery "
        "fault) x one varied configuration of the same input, compared with the interactive reference session; non-trivial = the script executed at least "
        "3 operations and both non-interactive runs completed; distinct = distinct (configuration, outcome, stdout digest) tuple")
ASSUMPTIONS = [
    "the interactive reference (step until done, then `stack`) is the same tree: C08 relates modes, it does not judge Bitcoin's rules",
    "under an empty or failing stdin only normal termination is required",
    "for failures raised as C++ exceptions only 'status 1 and an error line' is required, not a wording",
]
TIERS = {
    "quick": {"cases": 8000, "flavours": ("asan",), "cap_s": 600},
    "thorough": {"cases": 300000, "flavours": ("asan",), "cap_s": 3 * 3600},
}
SHRINK_LISTS = ["stack", "debug"]
DEBUG_AREAS = ["sighash", "signing", "segwit", "taproot"]
_hexline = re.compile(r"^[0-9a-f]*$")


def gen_config(rng, pipe_in=None):
    if pipe_in is None:
        pipe_in = rng.chance(55)
    cfg = {}
    if pipe_in:
        cfg["in"] = rng.choice(["pipe", "pipe", "env"])
        cfg["out"] = rng.choice(["tty", "pipe", "env"])
    else:
        cfg["in"] = "tty"
        cfg["out"] = rng.choice(["pipe", "pipe", "env"])
    # DEBUG_SET_PIPE_* force piping by being set, whatever their value; set next to a real pipe they change nothing
    cfg["pipe_env_value"] = rng.choice(["1", "1", "0", "", "yes", "false"])
    cfg["pipe_env_also"] = rng.chance(20)
    # when the script line arrives (simulated milliseconds after start-up); reading it must simply wait
    cfg["stdin_delay_ms"] = rng.weighted([(6, 0), (1, 1), (1, 1999), (1, 2001), (1, 10000), (1, 3600000)])
    cfg["quiet"] = rng.chance(30)
    cfg["debug"] = [a for a in DEBUG_AREAS if rng.chance(30)]
    cfg["debug_env"] = {}
    for a in DEBUG_AREAS:
        if rng.chance(25):
            cfg["debug_env"]["DEBUG_" + a.upper()] = rng.choice(["1", "0", "x", ""])
    # what the non-terminal ends are: `cmd | btcdeb`, `btcdeb < file`, `btcdeb < /dev/null`, a socket; same for stdout
    cfg["fdkind"] = rng.weighted([(5, "p"), (4, "f"), (1, "c")]) + rng.weighted([(5, "p"), (3, "f"), (1, "c"), (1, "s")])
    return cfg


def gen_known(rng):
    """Sessions at the size limits whose outcome is known by construction (an unexecuted branch full of pushes, then a
    known tail): too long to step interactively in the simulator (every step prints the remaining script), so the
    expectation comes from how the script was built, not from a reference run."""
    from . import spend, tx as T
    def body(n, tail):
        return bytes([0x00, 0x63]) + bytes([0x51]) * n + bytes([0x68]) + tail
    kind = rng.weighted([(3, "script"), (4, "legacy-spend"), (1, "oversize")])
    scn = {"family": "known", "opts": [], "stack": [], "spend": None, "observe": False, "tty": [1, 1], "env": {}, "known": True}
    x = rng.range(2, 16)
    if kind == "script":
        n = rng.choice([10, 4000, 9990, 9994, 9995])
        scn["script"] = body(n, bytes([0x50 + x])).hex()          # ... OP_x
        scn["expect"] = {"code": 0, "stdout": "%02x\n" % x}
    elif kind == "oversize":
        scn["script"] = body(9997 + rng.range(0, 3), bytes([0x50 + x])).hex()     # 10001..10003 bytes: over MAX_SCRIPT_SIZE
        scn["expect"] = {"code": 1, "stdout": None}
    else:
        n1 = rng.choice([5, 3000, 5200, 9000, 9990])
        n2 = rng.choice([5, 3000, 5200, 9000, 9990])
        ssig = body(n1, bytes([0x50 + x]))
        spk = body(n2, bytes([0x50 + x, 0x87]))                   # ... OP_x OP_EQUAL
        fund = spend.funding(spk)
        class _R:
            def bytes(self, n): return bytes([0x42]) * n
            def choice(self, seq): return seq[0]
        tx = spend.spending_skeleton(fund, _R())
        tx.vin[0].script_sig = ssig
        scn["script"] = None
        scn["spend"] = {"tx": tx.ser().hex(), "txin": fund.ser().hex()}
        scn["expect"] = {"code": 0, "stdout": "01\n"}
        scn["steps"] = n1 + n2 + 9
    scn["cfg"] = gen_config(rng)
    scn["cfg2"] = gen_config(rng, pipe_in=rng.chance(50))
    scn["stdin_fault"] = None
    scn["verbose"] = False
    scn["debug"] = []
    return scn


def evaluate_known(ctx, scn, ev):
    for key in ("cfg", "cfg2"):
        cfg = scn[key]
        w = world_for(scn, cfg, None)
        run = ctx.run(w)
        ev.hashes.append(run.hash())
        kind, detail = run.classify()
        ev.counters["term:" + kind] += 1
        conf = "in=%s out=%s" % (cfg["in"], cfg["out"])
        if kind not in ("return", "exit"):
            ev.add(PROP, "abnormal-termination", detail if kind == "sanitizer" else kind, "non-interactive run (%s) of a %s-step session ended by %s %s" % (conf, scn.get("steps", "long"), kind, detail[:100]))
            continue
        code, out = run.exit_code(), run.stdout().decode(proto.L1)
        exp = scn["expect"]
        if exp["code"] == 0 and (code != 0 or out != exp["stdout"]):
            ev.add(PROP, "result-differs", "known-outcome", "a session of %s steps built to end with the stack %r gives status %s, stdout %r, stderr %r (%s)"
                   % (scn.get("steps", len(scn.get("script") or "") // 2), exp["stdout"], code, out[:60], run.stderr().decode(proto.L1).strip()[-80:], conf))
        elif exp["code"] != 0 and code == 0:
            ev.add(PROP, "result-differs", "known-outcome", "a script over the size limit is reported as a success (%s)" % conf)
    ev.counters["probe:known_outcome_session"] += 1
    ev.nontrivial = True
    ev.cov = [("known", scn.get("steps"), len(scn.get("script") or ""))]


def gen(rng, tier, idx):
    if rng.chance(2):
        return gen_known(rng)
    scn = workloads.session_scenario(rng, purpose="noninteractive")
    scn["observe"] = True       # the final stack is read from the `stack` observer
    scn.pop("discard_stdout", None)      # this check reads what the tool prints
    kind = rng.weighted([(50, "ok"), (25, "fail"), (25, "throw")])
    if scn.get("script") is not None and kind != "ok":
        toks = G.failing_op(rng) if kind == "fail" else G.throwing_op(rng)
        workloads.inject_ops(scn, rng, toks)
    scn["outcome_kind"] = kind
    scn["cfg"] = gen_config(rng)
    scn["cfg2"] = gen_config(rng, pipe_in=rng.chance(50))
    scn["stdin_fault"] = None
    if rng.chance(45):
        k = rng.weighted([(4, "CHUNK"), (3, "NONL"), (3, "CRLF"), (2, "LONG"), (2, "EMPTY"), (2, "ERR"), (1, "TRAILING_WS"), (2, "EXTRA_LINES")])
        f = {"kind": k}
        if k == "CHUNK":
            f["chunks"] = [rng.range(1, 7) for _ in range(rng.range(1, 12))]
        elif k == "ERR":
            f["after"] = rng.range(0, 20)
            f["errno"] = rng.choice([5, 4, 11])
        elif k == "EXTRA_LINES":
            # only the first line is the script; whatever follows must not matter
            f["extra"] = rng.choice(["step\n", "[OP_RETURN]\n", "0x6a\n\n", "\n\n", "garbage without newline", "x" * 5000 + "\n", "\x00\x01\n"])
            f["chunks"] = [rng.range(1, 40) for _ in range(rng.below(4))]
        elif k == "LONG" and scn.get("script") is not None:
            pad = S.asm([rng.bytes(rng.choice([505, 509, 510, 511, 520])), "OP_DROP"])
            scn["script"] = (pad + bytes.fromhex(scn["script"])).hex()
        scn["stdin_fault"] = f
    scn["verbose"] = rng.chance(6)
    scn["debug"] = []
    scn["opt_order"] = rng.below(1 << 30)         # the two runs give the options in different (seeded) orders
    if scn.get("script") is not None and rng.chance(8):
        # the script as bracketed text, padded with blanks to a line length at a buffer-size boundary; the same text
        # is used for the interactive reference, for stdin and for argv, so how it maps to bytes does not matter here
        toks = []
        for _ in range(rng.range(1, 8)):
            toks.append(rng.choice(["OP_1", "OP_2", "OP_ADD", "OP_DUP", "OP_DROP", "7", "0x1122334455667788", "OP_SWAP", "OP_3", "OP_EQUAL", "OP_NOP", "OP_SIZE"]))
        body = " ".join(toks)
        L = rng.choice([1022, 1023, 1024, 1025, 4095, 4096, 4097, 8191, 8192, 65533, 65534, 65535, 65536, 65537, 131069, 131070, 131071])
        pad = max(0, L - len(body) - 2)
        scn["script_text"] = "[" + body + " " * pad + "]"
        scn["script"] = None
        scn["stack"] = []
        scn["stdin_fault"] = rng.choice([None, {"kind": "EXTRA_LINES", "extra": rng.choice(["[OP_7]\n", "x\n", "\n"]), "chunks": []}, {"kind": "CRLF_EXTRA", "extra": "[OP_7]\n"}])
    return scn


def shrink_extra(scn, still, budget):
    out = workloads.shrink_script(scn, still, budget)
    # simplify the configurations
    for key in ("cfg", "cfg2"):
        for fld, val in (("quiet", False), ("debug", []), ("debug_env", {}), ("pipe_env_also", False), ("pipe_env_value", "1"), ("stdin_delay_ms", 0)):
            if budget[0] <= 0:
                break
            if out[key].get(fld) != val:
                c = dict(out)
                c[key] = dict(out[key])
                c[key][fld] = val
                budget[0] -= 1
                if still(c):
                    out = c
    if out.get("stdin_fault") and budget[0] > 0:
        c = dict(out)
        c["stdin_fault"] = None
        budget[0] -= 1
        if still(c):
            out = c
    return out


def hash_cfg(cfg):
    return sum(ord(c) for c in (cfg["in"] + cfg["out"] + ",".join(cfg.get("debug", []))))


def world_for(scn, cfg, stdin_fault=None, verbose=False):
    s2 = dict(scn)
    opts = list(scn.get("opts", []))
    opts = [o for o in opts if o not in ("--quiet", "-q")]
    if cfg.get("quiet"):
        opts.append("--quiet")
    if cfg.get("debug"):
        opts.append("--debug=" + ",".join(cfg["debug"]))
    if verbose:
        opts.append("--verbose")
    if scn.get("opt_order") is not None:
        from .prng import Rng
        Rng(scn["opt_order"] ^ (len(opts) * 2654435761) ^ (1 if cfg.get("quiet") else 0) ^ (hash_cfg(cfg))).shuffle(opts)
    s2["opts"] = opts
    if scn.get("argv_style") is not None:
        s2["argv_style"] = (scn["argv_style"] ^ hash_cfg(cfg)) & 0x3FFFFFFF       # each configuration spells the options its own way
    pipe_in = cfg["in"] != "tty"
    s2["tty"] = [0 if cfg["in"] == "pipe" else 1, 0 if cfg["out"] == "pipe" else 1]
    env = dict(cfg.get("debug_env", {}))
    val = cfg.get("pipe_env_value", "1")
    if cfg["in"] == "env" or (cfg["in"] == "pipe" and cfg.get("pipe_env_also")):
        env["DEBUG_SET_PIPE_IN"] = val
    if cfg["out"] == "env" or (cfg["out"] == "pipe" and cfg.get("pipe_env_also")):
        env["DEBUG_SET_PIPE_OUT"] = val
    s2["env"] = env
    s2["script_on_stdin"] = pipe_in
    s2["fdkind"] = cfg.get("fdkind", "pp")
    w = session.build_world(s2, sched=[], faults=False)
    if pipe_in and cfg.get("stdin_delay_ms"):
        w["stdin_delay_ms"] = cfg["stdin_delay_ms"]
    if pipe_in:
        script_txt = "0x" + (scn.get("script") or "") if scn.get("script") is not None else ""
        if scn.get("script_text") is not None:
            script_txt = scn["script_text"]
        data = script_txt + "\n"
        f = stdin_fault or {}
        k = f.get("kind")
        if k == "NONL":
            data = script_txt
        elif k == "CRLF":
            data = script_txt + "\r\n"
        elif k == "TRAILING_WS":
            data = script_txt + "\r\r\n"
        elif k == "EMPTY":
            data = ""
        elif k == "ERR":
            data = data[:f.get("after", 0)]
            w["stdin"]["end_errno"] = f.get("errno", 5)
        elif k == "CHUNK":
            w["stdin"]["chunks"] = list(f.get("chunks", []))
        elif k == "EXTRA_LINES":
            data = script_txt + "\n" + f.get("extra", "")
            w["stdin"]["chunks"] = list(f.get("chunks", []))
        elif k == "CRLF_EXTRA":
            data = script_txt + "\r\n" + f.get("extra", "")
        w["stdin"]["data"] = data
    return w


def long_line(scn, cfg):
    """the script travels on stdin as one line of 1024 characters or more"""
    return cfg["in"] != "tty" and scn.get("script") is not None and len(scn["script"]) + 2 >= 1023


def expected_stdout(stack_items):
    return "".join(it + "\n" for it in stack_items)


def evaluate(ctx, scn):
    ev = Eval()
    _evaluate(ctx, scn, ev)
    if long_line(scn, scn["cfg"]) or long_line(scn, scn["cfg2"]):
        # one root cause, one class: whatever differs, it differs because the line was cut
        for v in ev.violations:
            if v.clause in ("result-differs", "config-dependence"):
                v.site = "stdin-line>=1024"
    return ev


def _evaluate(ctx, scn, ev):
    if scn.get("known"):
        return evaluate_known(ctx, scn, ev)
    ref = refmod.reference(ctx, scn, ev)
    ev.counters["term:" + ref.run.classify()[0]] += 1
    cfg = scn["cfg"]
    sf = scn.get("stdin_fault")
    pipe_in = cfg["in"] != "tty"
    w = world_for(scn, cfg, sf if pipe_in else None, verbose=scn.get("verbose", False))
    run = ctx.run(w)
    ev.hashes.append(run.hash())
    kind, detail = run.classify()
    ev.counters["term:" + kind] += 1
    if sf and pipe_in:
        ev.counters["fault:STDIN_" + sf["kind"]] += 1
    conf = "in=%s out=%s%s%s" % (cfg["in"], cfg["out"], " quiet" if cfg.get("quiet") else "", " debug=" + ",".join(cfg["debug"]) if cfg.get("debug") else "")
    # clause 1: never an abnormal termination
    if kind not in ("return", "exit"):
        site = detail if kind == "sanitizer" else kind
        ev.add(PROP, "abnormal-termination", site, "non-interactive run (%s%s) ended by %s %s" % (conf, ", stdin " + sf["kind"] if sf and pipe_in else "", kind, detail[:100]))
        return ev
    # a prompt in non-interactive mode means the mode selection is wrong
    if len(run.segs) > 1:
        ev.add(PROP, "mode", "prompted", "with %s the tool entered the interactive prompt" % conf)
        return ev
    out = run.stdout().decode(proto.L1)
    err = run.stderr().decode(proto.L1)
    code = run.exit_code()
    # clause 6: --verbose is refused in this mode
    if scn.get("verbose"):
        if code != 1 or not err.strip():
            ev.add(PROP, "verbose-not-refused", "status", "--verbose in non-interactive mode gave status %s and %d bytes of diagnostics" % (code, len(err)))
        ev.cov = [("verbose", code)]
        return ev
    degraded = pipe_in and sf and sf["kind"] in ("EMPTY", "ERR")
    if degraded:
        # the property promises nothing about the result of an empty or failing stdin
        ev.cov = [("degraded", sf["kind"], code)]
        ev.nontrivial = False
        return ev
    if ref.started and not ref.complete:
        # the interactive reference itself did not get to an outcome (crash or oversized log): C15's business
        ev.counters["ref_incomplete"] += 1
        return ev
    if not ref.started:
        # the input is refused before execution (invalid script, bad option): status must say so
        if code == 0:
            ev.add(PROP, "result-differs", "refused-input-status", "the interactive session refuses the input (%s) but the non-interactive run exits 0" % ref.startup_err.strip()[-80:])
        ev.cov = [("refused", code)]
        return ev
    final = ref.states[ref.L]
    final_stack = None
    if final[0] is not None and final[0][0] is not None:
        final_stack = list(final[0][0])
    elif ref.probes[ref.L] is not None:
        final_stack = [x for x in ref.probes[ref.L].get("stack", "").split(",")[:-1]]
        if any(x.startswith("#") for x in final_stack):
            final_stack = None      # the probe abbreviates items over 64 bytes: no expectation for stdout from it
    if ref.finished and ref.fail is None:
        # clause 2
        want = expected_stdout(final_stack) if final_stack is not None else None
        if code != 0:
            ev.add(PROP, "result-differs", "status-on-success", "interactive stepping succeeds; the non-interactive run (%s) exits %s: %s" % (conf, code, err.strip()[-100:]))
        elif want is not None and out != want:
            site = "stdout-extra" if want and want in out else "stdout"
            ev.add(PROP, "result-differs", site, "stdout is %r, interactive stepping ends with the stack %r (%s)" % (out[:120], want[:120], conf))
        elif any(not _hexline.match(l) for l in out.split("\n")):
            ev.add(PROP, "result-differs", "not-lowercase-hex", "stdout is not lowercase hex lines: %r" % out[:100])
    elif ref.fail is not None:
        # clause 3
        text = ref.fail[1]
        if code != 1:
            ev.add(PROP, "result-differs", "status-on-failure", "interactive stepping fails at step %d (%s); the non-interactive run (%s) exits %s" % (ref.fail[0], text[:60], conf, code))
        elif text.startswith("exception thrown"):
            if not any(l.startswith("error") for l in err.split("\n")):
                ev.add(PROP, "result-differs", "no-error-line", "the script fails with an exception but stderr has no error line: %r" % err[-100:])
        elif ("error: " + text) not in err:
            ev.add(PROP, "result-differs", "error-text", "interactive stepping reports %r, stderr of the non-interactive run is %r" % (text[:60], err.strip()[-100:]))
    # clauses 4 and 5: a second configuration of the same input gives the same stdout and status
    cfg2 = scn["cfg2"]
    pipe_in2 = cfg2["in"] != "tty"
    w2 = world_for(scn, cfg2, None)
    run2 = ctx.run(w2)
    ev.hashes.append(run2.hash())
    k2, d2 = run2.classify()
    ev.counters["term:" + k2] += 1
    conf2 = "in=%s out=%s%s%s%s" % (cfg2["in"], cfg2["out"], " quiet" if cfg2.get("quiet") else "", " debug=" + ",".join(cfg2["debug"]) if cfg2.get("debug") else "",
                                   " env=" + ",".join("%s=%s" % kv for kv in sorted(cfg2.get("debug_env", {}).items())) if cfg2.get("debug_env") else "")
    if k2 not in ("return", "exit"):
        ev.add(PROP, "abnormal-termination", d2 if k2 == "sanitizer" else k2, "non-interactive run (%s) ended by %s %s" % (conf2, k2, d2[:100]))
    elif len(run2.segs) > 1:
        ev.add(PROP, "mode", "prompted", "with %s the tool entered the interactive prompt" % conf2)
    else:
        out2 = run2.stdout().decode(proto.L1)
        code2 = run2.exit_code()
        if (out2, code2) != (out, code):
            same_delivery = pipe_in == pipe_in2
            if not same_delivery:
                site = "stdin-vs-argv" + (":" + sf["kind"] if sf and pipe_in else "")
            elif (cfg.get("debug"), cfg.get("debug_env")) != (cfg2.get("debug"), cfg2.get("debug_env")) and (("sighash" in cfg.get("debug", [])) != ("sighash" in cfg2.get("debug", [])) or cfg.get("debug_env", {}).get("DEBUG_SIGHASH") != cfg2.get("debug_env", {}).get("DEBUG_SIGHASH")):
                site = "debug-sighash"
            else:
                site = "options"
            ev.add(PROP, "config-dependence", site, "same script and stack: (%s%s) gives status %s stdout %r, (%s) gives status %s stdout %r"
                   % (conf, ", stdin " + sf["kind"] if sf and pipe_in else "", code, out[:80], conf2, code2, out2[:80]))
    ev.nontrivial = ref.L >= 3
    ev.cov = [(cfg["in"], cfg["out"], cfg.get("quiet"), tuple(cfg.get("debug", [])), sf["kind"] if sf else None, code, out[:200])]
    if ref.fail and ref.fail[1].startswith("exception"):
        ev.counters["probe:failure_is_exception"] += 1
    elif ref.fail:
        ev.counters["probe:failure_is_script_error"] += 1
    return ev
