"""Script bytes: opcode table, assembler, decoder, script numbers.

This is the harness's own knowledge of the byte format (Bitcoin's, not
btcdeb's): used to build workloads and to render the *expected* listing of C12
from bytes the harness itself generated.
"""

OP = {}
NAME = {}


def _def(name, val):
    OP[name] = val
    NAME.setdefault(val, name)


_def("OP_0", 0x00)
_def("OP_PUSHDATA1", 0x4c)
_def("OP_PUSHDATA2", 0x4d)
_def("OP_PUSHDATA4", 0x4e)
_def("OP_1NEGATE", 0x4f)
_def("OP_RESERVED", 0x50)
for _i in range(1, 17):
    _def("OP_%d" % _i, 0x50 + _i)
for _i, _n in enumerate("""OP_NOP OP_VER OP_IF OP_NOTIF OP_VERIF OP_VERNOTIF OP_ELSE OP_ENDIF OP_VERIFY OP_RETURN
OP_TOALTSTACK OP_FROMALTSTACK OP_2DROP OP_2DUP OP_3DUP OP_2OVER OP_2ROT OP_2SWAP OP_IFDUP OP_DEPTH OP_DROP OP_DUP OP_NIP OP_OVER
OP_PICK OP_ROLL OP_ROT OP_SWAP OP_TUCK OP_CAT OP_SUBSTR OP_LEFT OP_RIGHT OP_SIZE OP_INVERT OP_AND OP_OR OP_XOR OP_EQUAL
OP_EQUALVERIFY OP_RESERVED1 OP_RESERVED2 OP_1ADD OP_1SUB OP_2MUL OP_2DIV OP_NEGATE OP_ABS OP_NOT OP_0NOTEQUAL OP_ADD OP_SUB
OP_MUL OP_DIV OP_MOD OP_LSHIFT OP_RSHIFT OP_BOOLAND OP_BOOLOR OP_NUMEQUAL OP_NUMEQUALVERIFY OP_NUMNOTEQUAL OP_LESSTHAN
OP_GREATERTHAN OP_LESSTHANOREQUAL OP_GREATERTHANOREQUAL OP_MIN OP_MAX OP_WITHIN OP_RIPEMD160 OP_SHA1 OP_SHA256 OP_HASH160
OP_HASH256 OP_CODESEPARATOR OP_CHECKSIG OP_CHECKSIGVERIFY OP_CHECKMULTISIG OP_CHECKMULTISIGVERIFY OP_NOP1
OP_CHECKLOCKTIMEVERIFY OP_CHECKSEQUENCEVERIFY OP_NOP4 OP_NOP5 OP_NOP6 OP_NOP7 OP_NOP8 OP_NOP9 OP_NOP10 OP_CHECKSIGADD""".split()):
    _def(_n, 0x61 + _i)

MAX_OPCODE = OP["OP_NOP10"]          # what the unchanged tree accepts in a script
MAX_ELEMENT = 520
DISABLED = ["OP_CAT", "OP_SUBSTR", "OP_LEFT", "OP_RIGHT", "OP_INVERT", "OP_AND", "OP_OR", "OP_XOR",
            "OP_2MUL", "OP_2DIV", "OP_MUL", "OP_DIV", "OP_MOD", "OP_LSHIFT", "OP_RSHIFT"]


def listing_name(opcode):
    """How the tool names an opcode in its listing (the documented display rule)."""
    if opcode == 0x00:
        return "0"
    if opcode == 0x4f:
        return "-1"
    if 0x51 <= opcode <= 0x60:
        return str(opcode - 0x50)
    if opcode in NAME and opcode <= 0xba:
        return NAME[opcode]
    return "OP_UNKNOWN"


def scriptnum(n):
    if n == 0:
        return b""
    neg = n < 0
    a = -n if neg else n
    out = bytearray()
    while a:
        out.append(a & 0xFF)
        a >>= 8
    if out[-1] & 0x80:
        out.append(0x80 if neg else 0)
    elif neg:
        out[-1] |= 0x80
    return bytes(out)


def push(data):
    """minimal-length direct push of arbitrary data (not minimal-number form)"""
    n = len(data)
    if n < 0x4c:
        return bytes([n]) + data
    if n <= 0xFF:
        return bytes([0x4c, n]) + data
    if n <= 0xFFFF:
        return bytes([0x4d, n & 0xFF, n >> 8]) + data
    return bytes([0x4e]) + n.to_bytes(4, "little") + data


def push_num(n):
    """CScript << int64"""
    if n == -1 or 1 <= n <= 16:
        return bytes([0x50 + n]) if n != -1 else bytes([0x4f])
    if n == 0:
        return b"\x00"
    return push(scriptnum(n))


def push_min(data):
    """CScript << vector: what `exec <hex>` produces (direct push, any length)"""
    return push(data)


def decode(script):
    """[(offset, opcode, pushdata|None, length)] or raises ValueError if truncated"""
    out = []
    i = 0
    n = len(script)
    while i < n:
        o = script[i]
        start = i
        i += 1
        data = None
        if o <= 0x4e:
            if o < 0x4c:
                ln = o
            elif o == 0x4c:
                if i + 1 > n:
                    raise ValueError("truncated")
                ln = script[i]
                i += 1
            elif o == 0x4d:
                if i + 2 > n:
                    raise ValueError("truncated")
                ln = script[i] | (script[i + 1] << 8)
                i += 2
            else:
                if i + 4 > n:
                    raise ValueError("truncated")
                ln = int.from_bytes(script[i:i + 4], "little")
                i += 4
            if i + ln > n:
                raise ValueError("truncated")
            data = bytes(script[i:i + ln])
            i += ln
        out.append((start, o, data, i - start))
    return out


def listing_entry(opcode, data):
    if data:
        return data.hex()
    return listing_name(opcode)


def asm(tokens):
    """tokens: opcode names, ints, bytes -> script bytes (ints via push_num, bytes via push)"""
    out = bytearray()
    for t in tokens:
        if isinstance(t, int):
            out += push_num(t)
        elif isinstance(t, (bytes, bytearray)):
            out += push(bytes(t))
        elif isinstance(t, str):
            if t.startswith("raw:"):
                out += bytes.fromhex(t[4:])
            else:
                out.append(OP[t])
        else:
            raise TypeError(t)
    return bytes(out)


def decode_prefix(script):
    """the operations that can be read before the bytes stop making sense (a truncated push ends the list)"""
    out = []
    i = 0
    n = len(script)
    while i < n:
        o = script[i]
        start = i
        i += 1
        data = None
        if o <= 0x4e:
            if o < 0x4c:
                ln = o
            else:
                w = {0x4c: 1, 0x4d: 2, 0x4e: 4}[o]
                if i + w > n:
                    return out
                ln = int.from_bytes(script[i:i + w], "little")
                i += w
            if i + ln > n:
                return out
            data = bytes(script[i:i + ln])
            i += ln
        out.append((start, o, data, i - start))
    return out
