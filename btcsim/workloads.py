"""Session workloads shared by the checks (DESIGN 3.6), swarm style: every run
draws its own family, sizes, options."""
from . import gen, script as S, session

STD_OFFABLE = ["MINIMALDATA", "MINIMALIF", "NULLDUMMY", "DISCOURAGE_UPGRADABLE_NOPS", "CLEANSTACK", "CONST_SCRIPTCODE",
               "NULLFAIL", "STRICTENC", "DERSIG", "LOW_S", "P2SH", "CHECKLOCKTIMEVERIFY", "CHECKSEQUENCEVERIFY",
               "DISCOURAGE_OP_SUCCESS", "DISCOURAGE_UPGRADABLE_PUBKEYTYPE", "DISCOURAGE_UPGRADABLE_TAPROOT_VERSION", "WITNESS_PUBKEYTYPE"]


def hexs(b):
    return bytes(b).hex()


def pretend_opt(rng=None):
    """the --pretend-valid list; its *shape* varies (repeated pairs, one signature for two keys, one key for two
    signatures), the pairs the workloads use (SIG:KEY, SIG2:KEY2) are always in it and listed last"""
    pairs = [(gen.PRETEND_SIG, gen.PRETEND_KEY), (gen.PRETEND_SIG2, gen.PRETEND_KEY2)]
    if rng is not None and rng.chance(35):
        extra = rng.choice([
            [(gen.PRETEND_SIG, gen.PRETEND_KEY)],                                   # the same pair twice
            [(gen.PRETEND_SIG2, gen.PRETEND_KEY)],                                  # a key that is later re-listed with another signature
            [(gen.PRETEND_SIG, gen.PRETEND_KEY2)],                                  # a signature that is later re-listed with another key
            [(gen.PRETEND_SIG, gen.PRETEND_KEY3)],                                  # ... with a key that appears nowhere else
            [(bytes.fromhex("3006020101020101" + "01"), bytes.fromhex("02" + "ee" * 32))],
        ])
        pairs = extra + pairs
    return "--pretend-valid=" + ",".join("%s:%s" % (hexs(a), hexs(b)) for a, b in pairs)


def inert_environment(rng):
    """environment conditions a session must be indifferent to (used by the checks whose property is about the
    execution state): history file trouble, entropy trouble, odd terminal sizes"""
    k = rng.below(9)
    if k == 0:
        return [{"kind": "HIST_WRITE", "after": rng.range(0, 40), "errno": 28}]
    if k == 1:
        return [{"kind": "HIST_CLOSE", "errno": 5}]
    if k == 2:
        return [{"kind": "HIST_ABSENT"}]
    if k == 3:
        return [{"kind": "HIST_OPEN_A", "at": rng.below(6), "errno": rng.choice([13, 28, 24])}]
    if k == 4:
        return [{"kind": "HIST_OPEN_ALL", "errno": 30}]
    if k == 5:
        return [{"kind": "HIST_CONTENT", "content": rng.choice(["step\nstep\nrewind\n", "exec OP_1\n" * 50, "x" * 2000 + "\n", "tf echo \\\"a\\nb\\\"\n"])}]
    if k == 6:
        return [{"kind": "URANDOM_OPEN", "errno": 2}]
    if k == 7:
        return [{"kind": "URANDOM_SHORT", "after": rng.choice([0, 16])}]
    return [{"kind": "HIST_READ", "after": rng.range(0, 5)}]


def shuffle_opts(rng, scn):
    """the order in which options are given must not matter"""
    o = list(scn.get("opts", []))
    rng.shuffle(o)
    scn["opts"] = o


def session_scenario(rng, purpose="rewind", allow_spend=True):
    """-> scenario without schedule"""
    scn = _session_scenario(rng, purpose, allow_spend)
    d = scn.pop("debug_opt", None)
    if d and d != "--debug=":
        scn["opts"] = list(scn["opts"]) + [d]
    if rng.chance(30):
        scn["argv_style"] = rng.below(1 << 30)      # the same command line, spelt another way (session.respell_argv)
    return scn


def _session_scenario(rng, purpose="rewind", allow_spend=True):
    fam = rng.weighted([
        (30, "mixed"), (14, "if-heavy"), (8, "alt-heavy"), (8, "codesep"), (8, "sig"), (5, "opcount"), (4, "bigstack"),
        (8, "disabled"), (5, "tiny"), (6 if allow_spend else 0, "dataset"), (24 if allow_spend else 0, "spend"),
        (3, "long-listing"), (4, "pushforms"), (4, "p2sh-plain"), (7 if allow_spend else 0, "wrapped"),
    ])
    scn = {"family": fam, "opts": [], "stack": [], "spend": None, "observe": True, "tty": [1, 1], "env": {}}
    if rng.chance(20):
        # the debug-logging switches are process-global; a session must behave the same with any of them on
        for a in ("SIGHASH", "SIGNING", "SEGWIT", "TAPROOT"):
            if rng.chance(40):
                scn["env"]["DEBUG_" + a] = rng.choice(["1", "1", "0", "x"])
        if rng.chance(40):
            scn["debug_opt"] = "--debug=" + ",".join(a for a in ("sighash", "signing", "segwit", "taproot") if rng.chance(50))
    flags_off = []
    if fam == "dataset":
        scn["spend"] = {"dataset": rng.choice(session.DATASETS)}
        scn["script"] = None
        if rng.chance(25):
            scn["opts"].append("--quiet")
        return scn
    if fam == "spend":
        from . import spend
        sp = spend.make(rng)
        scn["spend"] = {"tx": sp["tx"], "txin": sp["txin"]}
        if sp.get("select") is not None:
            scn["spend"]["select"] = sp["select"]
        scn["spend_kind"] = sp["kind"]
        scn["script"] = None
        scn["opts"] = list(sp["opts"])
        if rng.chance(15):
            scn["opts"].append("--quiet")
        return scn
    if fam == "wrapped":
        # a generated script run under the segwit v0 / tapscript rules: witness script or tap leaf of a signature-free
        # spend built by the harness; in a share of the cases with an operation that fails under the standard flags
        from . import spend
        wrap = rng.choice(["p2wsh", "tapscript", "tapscript"])
        g = gen.ScriptGen(rng, max_ops=rng.range(5, 40))
        g.build(rng.range(2, 14))
        toks = list(g.toks)
        off = []
        if rng.chance(40):
            bad = gen.failing_op(rng)
            at = rng.below(len(toks) + 1)
            toks = toks[:at] + bad + toks[at:]
            if wrap == "tapscript" and any(t in ("OP_RESERVED", "OP_VER", "OP_CAT", "OP_RESERVED1") for t in bad if isinstance(t, str)) and rng.chance(60):
                off.append("DISCOURAGE_OP_SUCCESS")       # these opcodes are "success" opcodes under the tapscript rules
        if rng.chance(25):
            f = rng.choice(STD_OFFABLE)
            if f not in off:
                off.append(f)
        items = [S.scriptnum(rng.range(17, 900)) for _ in range(rng.range(0, 2))]
        sp = spend.make_nosig(wrap, S.asm(toks), items, rng.range(0, 3))
        scn["spend"] = {"tx": sp["tx"], "txin": sp["txin"]}
        scn["spend_kind"] = "nosig-" + wrap
        scn["script"] = None
        if off:
            scn["opts"].append("--modify-flags=" + ",".join("-" + f for f in off))
        return scn
    if fam == "p2sh-plain":
        # HASH160 <h> EQUAL with the redeem script as the top stack item: the P2SH section comes from the stack
        from . import tx as T
        g = gen.ScriptGen(rng, max_ops=12)
        g.build(rng.range(1, 5))
        red = S.asm(g.toks + [1])
        below = [hexs(S.scriptnum(rng.range(17, 500))) for _ in range(rng.range(0, 2))]
        if rng.chance(30):
            # a redeem script that itself has the shape of a standard output template
            pre = rng.bytes(rng.range(2, 30))
            red = rng.choice([bytes([0xa9, 0x14]) + T.hash160(pre) + bytes([0x87]),
                              bytes([0x76, 0xa9, 0x14]) + T.hash160(pre) + bytes([0x88, 0x75, 0x51])])
            below.append(hexs(pre))
        h = T.hash160(red) if rng.chance(75) else rng.bytes(20)        # a wrong hash: the switch to the P2SH script is refused
        scn["script"] = hexs(bytes([0xa9, 0x14]) + h + bytes([0x87]))
        scn["stack"] = below + [hexs(red)]
        if rng.chance(10):
            scn["opts"].append("--modify-flags=-P2SH")
        scn["features"] = ["p2sh-plain"]
        return scn
    if rng.chance(25):
        # some flags off: changes which ops are legal, never part of an oracle
        k = rng.range(1, 3)
        for _ in range(k):
            f = rng.choice(STD_OFFABLE)
            if f not in flags_off:
                flags_off.append(f)
    if fam == "codesep" and "CONST_SCRIPTCODE" not in flags_off:
        flags_off.append("CONST_SCRIPTCODE")
    if fam == "pushforms" and "MINIMALDATA" not in flags_off:
        flags_off.append("MINIMALDATA")
    allow_disabled = fam == "disabled" or rng.chance(10)
    pretend = fam in ("sig", "codesep") or rng.chance(15)
    g = gen.ScriptGen(rng, allow_disabled=allow_disabled, flags_off=flags_off, pretend=pretend,
                      max_ops=rng.range(5, 60))
    if fam == "tiny":
        g.build(rng.range(1, 3))
    elif fam == "if-heavy":
        for _ in range(rng.range(2, 8)):
            if rng.chance(70):
                g.s_if()
            else:
                g.snippet()
    elif fam == "alt-heavy":
        for _ in range(rng.range(3, 14)):
            if rng.chance(55):
                g.s_alt()
            else:
                g.snippet()
    elif fam == "codesep":
        for _ in range(rng.range(3, 12)):
            k = rng.below(10)
            if k < 3:
                g.s_codesep()
            elif k < 6:
                g.s_checksig()
            else:
                g.snippet()
    elif fam == "sig":
        for _ in range(rng.range(2, 10)):
            k = rng.below(10)
            if k < 4:
                g.s_checksig()
            elif k < 6:
                g.s_multisig()
            else:
                g.snippet()
    elif fam == "opcount":
        # op count near the 201 limit: the limit decides the outcome of continuing
        target = rng.range(195, 204)
        g.max_ops = 400
        while g.nonpush < target - 6:
            k = rng.below(10)
            if k < 6:
                g.emit("OP_NOP")
            elif k < 8:
                g.s_unary()
            else:
                g.s_binary()
        while g.nonpush < target:
            g.emit("OP_NOP")
        scn["observe"] = rng.chance(15)
    elif fam == "pushforms":
        for _ in range(rng.range(2, 10)):
            if rng.chance(55):
                g.s_oddpush()
            else:
                g.snippet()
    elif fam == "long-listing":
        # listings of 100 / 1000+ entries: the index column gets wider, nothing else may change
        n = rng.choice([98, 99, 100, 101, 250, 999, 1000, 1001, 1200])
        g.max_ops = 100000
        for i in range(n // 2):
            g.emit(rng.range(0, 16), "OP_DROP") if i < 90 else g.emit(rng.range(0, 16), rng.range(0, 16))
        scn["observe"] = n <= 101 and rng.chance(50)      # a 1000-line `print` after every step would only fill the event log
        if n > 250:
            scn["discard_stdout"] = True                  # every step prints the whole remaining script: count it, do not record it
    elif fam == "bigstack":
        # stack + altstack near 1000
        n0 = rng.range(985, 998)
        scn["stack"] = ["%02x" % (17 + (i % 100)) for i in range(n0)]
        g.st = ["n"] * n0
        for _ in range(rng.range(3, 10)):
            k = rng.below(10)
            if k < 5:
                g.push_small()
            elif k < 7:
                g.s_alt()
            elif k < 8:
                g.emit("OP_2DUP"); g.st.extend(g.st[-2:])
            else:
                g.emit("OP_3DUP"); g.st.extend(g.st[-3:])
        scn["observe"] = False
    else:
        g.build(rng.range(3, 25))
        if fam == "disabled" and rng.chance(20):
            # one chain of repeated doubling somewhere in the script
            g.emit(rng.bytes(rng.range(1, 3)))
            for _ in range(rng.choice([12, 15, 16, 17])):
                g.emit("OP_DUP", "OP_CAT")
            g.st.append("d")
            g.features.add("huge-item")
            for _ in range(rng.range(0, 4)):
                g.snippet()
    toks = g.toks
    scn["script"] = hexs(S.asm(toks))
    if fam not in ("bigstack",):
        n = rng.weighted([(10, 0), (6, rng.range(1, 3)), (2, rng.range(4, 6)), (2, rng.range(30, 40)), (1, rng.range(41, 130))])
        scn["stack"] = [hexs(rng.bytes(rng.range(5, 33))) if rng.chance(40) else hexs(S.scriptnum(rng.range(17, 5000))) for _ in range(n)]
    if flags_off:
        scn["opts"].append("--modify-flags=" + ",".join("-" + f for f in flags_off))
    if allow_disabled:
        scn["opts"].append("-z")
    if pretend:
        scn["opts"].append(pretend_opt(rng))
    if rng.chance(10):
        scn["opts"].append("--quiet")
    scn["features"] = sorted(g.features)
    if "huge-item" in g.features:
        scn["observe"] = False      # a `stack` listing of a 100 KiB item after every step only fills the event log
    return scn


def deep_scenario(rng):
    """A session of thousands of operations (a script may have 10 000 bytes; pushes and unexecuted operations do not
    count against the operation limit): what a user gets by holding Enter.  Every step prints the remaining script,
    so stdout is counted instead of recorded and the probe reports scripts by digest."""
    n = rng.weighted([(2, rng.range(4100, 5200)), (2, rng.range(5200, 8400)), (1, rng.range(8400, 9950))])
    k = rng.range(10, 60)
    toks = [rng.range(1, 16) for _ in range(k)] + [0, "OP_IF"] + [rng.range(1, 16) for _ in range(n - k - 4)] + ["OP_ENDIF", 1]
    scn = {"family": "deep", "opts": [], "stack": [], "spend": None, "observe": False, "tty": [1, 1], "env": {},
           "script": hexs(S.asm(toks)), "discard_stdout": True, "probe_light": True, "cap": 4 * n + 200, "alarm_s": 900, "features": ["deep"]}
    rounds = [r + d for r in (4096, 5000, 6000, 8000, 8192, n) for d in (-1, 0, 1, 2, 3) if 0 < r + d <= n]
    scn["deep_depth"] = rng.choice(rounds) if rng.chance(50) else n
    return scn


def shrink_script(scn, still, budget):
    """shorten the script op by op (whole ops, so the remainder still decodes)"""
    from .core import ddmin
    if not scn.get("script"):
        return scn
    try:
        ops = S.decode(bytes.fromhex(scn["script"]))
    except ValueError:
        return scn
    raw = bytes.fromhex(scn["script"])
    pieces = [raw[o:o + ln].hex() for (o, _, _, ln) in ops]

    def t(lst):
        c = dict(scn)
        c["script"] = "".join(lst)
        return still(c)
    pieces = ddmin(pieces, t, budget)
    out = dict(scn)
    out["script"] = "".join(pieces)
    # then try to shrink big pushes to small ones
    for i, pc in enumerate(pieces):
        if budget[0] <= 0:
            break
        if len(pc) > 12:
            cand = list(pieces)
            cand[i] = "0511223344aa"
            c = dict(out)
            c["script"] = "".join(cand)
            budget[0] -= 1
            if still(c):
                pieces = cand
                out = c
    if out.get("opts"):
        def t2(lst):
            c = dict(out)
            c["opts"] = lst
            return still(c)
        out["opts"] = ddmin(out["opts"], t2, budget)
    return out


def inject_ops(scn, rng, toks, at=None):
    """splice tokens into the script at an operation boundary (a fault placed
    inside the workload); at = piece index, default seeded"""
    raw = bytes.fromhex(scn["script"])
    try:
        ops = S.decode(raw)
    except ValueError:
        return
    cuts = [o for (o, _, _, _) in ops] + [len(raw)]
    if at is None:
        # biased to the middle and the end: faults should land where state exists
        at = rng.weighted([(1, 0), (3, rng.below(len(cuts))), (2, len(cuts) - 1)])
    at = min(at, len(cuts) - 1)
    off = cuts[at]
    scn["script"] = (raw[:off] + S.asm(toks) + raw[off:]).hex()
    scn["injected_at"] = at
