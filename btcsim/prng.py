"""The one source of randomness: splitmix64 seeding xoshiro256**.

No use of `random`, hash-ordered containers or clocks anywhere in plan
generation; a plan is a pure function of one integer.
"""
M64 = (1 << 64) - 1


def splitmix64(x):
    x = (x + 0x9E3779B97F4A7C15) & M64
    z = x
    z = ((z ^ (z >> 30)) * 0xBF58476D1CE4E5B9) & M64
    z = ((z ^ (z >> 27)) * 0x94D049BB133111EB) & M64
    return z ^ (z >> 31)


def run_seed(master, i):
    return splitmix64((master ^ ((i * 0x9E3779B97F4A7C15) & M64)) & M64)


def _rotl(x, k):
    return ((x << k) & M64) | (x >> (64 - k))


class Rng:
    def __init__(self, seed):
        s = seed & M64
        st = []
        for _ in range(4):
            s = (s + 0x9E3779B97F4A7C15) & M64
            z = s
            z = ((z ^ (z >> 30)) * 0xBF58476D1CE4E5B9) & M64
            z = ((z ^ (z >> 27)) * 0x94D049BB133111EB) & M64
            st.append(z ^ (z >> 31))
        self.s = st

    def u64(self):
        s = self.s
        r = (_rotl((s[1] * 5) & M64, 7) * 9) & M64
        t = (s[1] << 17) & M64
        s[2] ^= s[0]
        s[3] ^= s[1]
        s[1] ^= s[2]
        s[0] ^= s[3]
        s[2] ^= t
        s[3] = _rotl(s[3], 45)
        return r

    def below(self, n):
        """uniform in [0, n)"""
        if n <= 1:
            return 0
        return self.u64() % n

    def range(self, lo, hi):
        """uniform in [lo, hi]"""
        return lo + self.below(hi - lo + 1)

    def chance(self, num, den=100):
        return self.below(den) < num

    def choice(self, seq):
        return seq[self.below(len(seq))]

    def weighted(self, pairs):
        """pairs: [(weight, item)]"""
        tot = sum(w for w, _ in pairs)
        x = self.below(tot)
        for w, it in pairs:
            if x < w:
                return it
            x -= w
        return pairs[-1][1]

    def bytes(self, n):
        out = bytearray()
        while len(out) < n:
            out += self.u64().to_bytes(8, "little")
        return bytes(out[:n])

    def shuffle(self, lst):
        for i in range(len(lst) - 1, 0, -1):
            j = self.below(i + 1)
            lst[i], lst[j] = lst[j], lst[i]

    def fork(self):
        return Rng(self.u64())
