"""What a session is going to execute, computed by the harness from the inputs
it generated (script bytes, transactions) - independent of the tool's own
listing code.  Used by C12 (expected listing) and by the spend workloads."""
from . import script as S, tx as T

P2SH_FLAG_DEFAULT = True


def is_p2sh_spk(spk):
    return len(spk) == 23 and spk[0] == 0xa9 and spk[1] == 20 and spk[22] == 0x87


def last_push(script):
    last = b""
    for (_, op, data, _) in S.decode(script):
        last = data if data is not None else b""
        if data is None:
            last = b""
    return last


def first_push(script):
    ops = S.decode(script)
    if not ops or ops[0][2] is None:
        return None
    return ops[0][2]


def flags_off(scn):
    off = set()
    on = set()
    for o in scn.get("opts", []):
        v = None
        if o.startswith("--modify-flags="):
            v = o[len("--modify-flags="):]
        elif o.startswith("-f"):
            v = o[2:]
        if v:
            for part in v.split(","):
                if part.startswith("-"):
                    off.add(part[1:])
                elif part.startswith("+"):
                    on.add(part[1:])
    return off, on


def sections(scn):
    """-> list of ('commit', path_len) | ('script', bytes) | ('header', text), or None if
    the harness cannot tell (malformed spend: the tool refuses before the session)"""
    sp = scn.get("spend")
    off, _ = flags_off(scn)
    p2sh_on = "P2SH" not in off
    if not sp:
        sc = bytes.fromhex(scn.get("script") or "")
        out = [("script", sc)]
        # a bare P2SH-form script with a non-empty initial stack: the top item is the redeem script
        if p2sh_on and is_p2sh_spk(sc) and scn.get("stack"):
            out += [("header", "<<< P2SH script >>>"), ("script", bytes.fromhex(scn["stack"][-1]))]
        return out
    if "dataset" in sp:
        from . import session
        fl = session.dataset_files(sp["dataset"])
        try:
            txb = bytes.fromhex(fl[0]["content"].strip())
            inb = bytes.fromhex(fl[1]["content"].strip())
        except ValueError:
            return None
        sel = None
    else:
        try:
            txhex = sp["tx"].split(":")[-1]
            txb = bytes.fromhex(txhex)
            inb = bytes.fromhex(sp["txin"])
        except (ValueError, KeyError):
            return None
        sel = sp.get("select")
    try:
        tx = T.Tx.parse(txb)
        txin = T.Tx.parse(inb)
    except ValueError:
        return None
    prev = txin.txid()
    idx = None
    if sel is not None:
        idx = sel
    else:
        for i, vin in enumerate(tx.vin):
            if vin.prev_hash == prev:
                idx = i
                break
    if idx is None or idx >= len(tx.vin) or tx.vin[idx].prev_n >= len(txin.vout):
        return None
    vin = tx.vin[idx]
    spk = txin.vout[vin.prev_n].spk
    wit = vin.witness
    try:
        if wit:
            validation = spk
            if vin.script_sig:
                fp = first_push(vin.script_sig)
                if not fp:
                    return None
                validation = fp
            if len(validation) == 22 and validation[0] == 0x00:
                prog = validation[2:]
                return [("script", bytes([0x76, 0xa9, 0x14]) + prog + bytes([0x88, 0xac]))]
            if len(validation) == 34 and validation[0] == 0x00:
                out = [("script", wit[-1])]
                # btcdeb decides "P2SH" from the byte pattern of the script it runs, whatever the script version:
                # the top item of the initial stack is then executed as one more section
                if p2sh_on and is_p2sh_spk(wit[-1]) and len(wit) >= 2:
                    if wit[-2].hex().isdigit():
                        return None     # the tool re-reads such an item as a decimal number: not what the harness generated
                    out += [("header", "<<< P2SH script >>>"), ("script", wit[-2])]
                return out
            if len(validation) == 34 and validation[0] == 0x51:
                st = list(wit)
                if len(st) >= 2 and st[-1] and st[-1][0] == 0x50:
                    st.pop()
                if len(st) == 1:
                    return [("script", bytes([0x20]) + validation[2:] + bytes([0xac]))]
                control = st[-1]
                leaf = st[-2]
                return [("commit", (len(control) - 33) // 32), ("script", leaf)]
            return None
        out = [("script", vin.script_sig), ("header", "<<< scriptPubKey >>>"), ("script", spk)]
        if p2sh_on and is_p2sh_spk(spk):
            out += [("header", "<<< P2SH script >>>"), ("script", last_push(vin.script_sig))]
        return out
    except (ValueError, IndexError):
        return None


class Listing:
    """entries[i] = (kind, text|None, section_index, byte_offset|None)"""

    def __init__(self, secs):
        self.entries = []
        self.secs = secs
        self.section_base = []
        for si, (kind, val) in enumerate(secs):
            self.section_base.append(len(self.entries))
            if kind == "commit":
                for j in range(val + 1):        # one entry per commitment step: path elements + the final tweak check
                    self.entries.append(("commit", None, si, j))
            elif kind == "header":
                self.entries.append(("header", val, si, None))
            else:
                for (o, op, data, ln) in S.decode_prefix(val):
                    self.entries.append(("op", S.listing_entry(op, data), si, o))

    def index_for(self, script_bytes, pc):
        """listing indices at which the op at byte offset pc of a script with these bytes is shown"""
        out = []
        for i, (kind, text, si, o) in enumerate(self.entries):
            if kind == "op" and o == pc and self.secs[si][1] == script_bytes:
                out.append(i)
        return out

    def header_index(self, text):
        return [i for i, e in enumerate(self.entries) if e[0] == "header" and e[1] == text]

    def commit_index(self, j):
        return [i for i, e in enumerate(self.entries) if e[0] == "commit" and e[3] == j]

    def n_commit(self):
        return sum(1 for e in self.entries if e[0] == "commit")
