"""C15 - no crash / no memory error, on the session and environment side.

A swarm over all three tools: command schedules over the whole kerl table
(exec and tf with boundary-length arguments, quoting, continuation lines,
repeats, unknown commands, step/rewind/exec after failed and thrown steps)
with one to three environment faults per run, each placed inside the
operation that creates the in-flight state it interacts with; plus the complete
enumeration fault kind x site x position over a short session.
"""
from . import gen as G, proto, script as S, session, workloads
from .core import Eval
from .prng import Rng

PROP = "C15"
LEVEL = "fault_enumeration"
RULE = ("case = one simulated process (btcdeb interactive or non-interactive, tap, btcc) with a seeded command schedule over the whole command table and 0-3 "
        "injected faults (history open/write/close/content, stdin empty/short/failing/over-long, dataset missing/short/garbage, /dev/urandom absent/short, "
        "stdout/stderr write errors, EOF at main and continuation prompts, failing and throwing steps and exec tokens); plus the complete enumeration of "
        "fault kind x site x command position over a short session; oracle = termination by return/exit only, no sanitizer report, no hang, no prompt after "
        "EOF; non-trivial = the run delivered at least 3 user lines or fired at least one fault; distinct = distinct (command kinds, fired faults, termination) tuple")
ASSUMPTIONS = [
    "ASan + UBSan subset (bounds, null, return, unreachable, vla-bound, integer-divide-by-zero, pointer-overflow) on everything but libsecp256k1",
    "allocation failure and SIGPIPE death are not injected (DESIGN 3.2); a signal is injected only as Ctrl-C at a prompt (DESIGN 9.8)",
    "crash-freedom over all argv/stdin byte strings (pure parser inputs) is sampled only incidentally; that part of C15 is not claimed",
]
TIERS = {
    "quick": {"cases": 40000, "flavours": ("asan",), "cap_s": 600},
    "thorough": {"cases": 1500000, "flavours": ("asan", "plain"), "cap_s": 4 * 3600},
}
SHRINK_LISTS = ["sched", "faults", "stack", "argv"]

TF_NAMES = ["addr-to-scriptpubkey", "add", "bech32-decode", "bech32-encode", "bech32m-encode", "base58chk-decode", "base58chk-encode",
            "combine-pubkeys", "echo", "hash160", "hash256", "hex", "int", "len", "jacobi-symbol", "prefix-compact-size", "pubkey-to-xpubkey",
            "reverse", "ripemd160", "sha256", "scriptpubkey-to-addr", "sub", "tagged-hash", "taproot-tweak-pubkey", "tweak-pubkey",
            "verify-sig", "verify-sig-compact"]
INLINE = ["echo", "hex", "int", "reverse", "sha256", "ripemd160", "hash256", "hash160", "base58chkenc", "base58chkdec", "bech32enc", "bech32dec",
          "verify_sig", "combine_pubkeys", "tweak_pubkey", "pubkey_to_xpubkey", "addr_to_spk", "spk_to_addr", "add", "sub", "jacobi", "tagged_hash",
          "taproot_tweak_pubkey", "prefix_compact_size", "nosuchfn"]
BOUNDARY = [0, 1, 2, 20, 21, 25, 31, 32, 33, 34, 64, 65, 72, 73, 520, 521]
GOOD_PUBKEY = "0279be667ef9dcbbac55a06295ce870b07029bfcdb2dce28d959f2815b16f81798"
GOOD_XONLY = "79be667ef9dcbbac55a06295ce870b07029bfcdb2dce28d959f2815b16f81798"
GOOD_ADDR = "1BvBMSEYstWetqTFn5Au4m4GFg7xJaNVN2"
GOOD_BECH = "bc1qw508d6qejxtdg4y5r3zarvary0c5xw7kv8f3t4"


def adversarial_arg(rng):
    k = rng.below(16)
    if k == 0:
        return ""
    if k == 1:
        return "0x"
    if k == 2:
        n = rng.choice(BOUNDARY) if rng.chance(70) else rng.range(0, 600)
        return rng.bytes(n).hex()
    if k == 3:
        n = rng.choice(BOUNDARY) if rng.chance(70) else rng.range(0, 600)
        return "0x" + rng.bytes(n).hex()
    if k == 4:
        return str(rng.choice([0, 1, -1, 16, 17, 255, 256, 65535, 2147483647, -2147483648, 2147483648, 9223372036854775807, -9223372036854775808]))
    if k == 5:
        return rng.choice([GOOD_PUBKEY, GOOD_XONLY, GOOD_ADDR, GOOD_BECH, "02" + "00" * 32, "04" + "11" * 64, "ff" * 33])
    if k == 6:
        return rng.choice(["abc", "hello world", "OP_DUP", "OP_x", "OP_xzz", "x", "zz", "0b1010", "0b", "0b12", "1e9", "++", "-", "--5", "0x0", "0xz", "é"])
    if k == 7:
        return "[" + " ".join(rng.choice(["OP_1", "OP_DUP", "5", "0x1234", "abcdef", "OP_xff", "[", "]", "[]", "OP_NOSUCH"]) for _ in range(rng.range(0, 4))) + "]"
    if k == 8:
        f = rng.choice(INLINE)
        return "%s(%s)" % (f, adversarial_arg(rng) if rng.chance(70) else "")
    if k == 9:
        return rng.choice(["[", "]", "[[", "]]", "[a [b] c", "(", ")", "()", "sha256(", "sha256()", "a(b)", "(((())))"])
    if k == 10:
        # mutated good values: truncation, one flipped character, doubled
        v = rng.choice([GOOD_PUBKEY, GOOD_ADDR, GOOD_BECH, GOOD_XONLY])
        m = rng.below(4)
        if m == 0:
            return v[:rng.below(len(v))]
        if m == 1:
            i = rng.below(len(v))
            return v[:i] + rng.choice("0qz1") + v[i + 1:]
        if m == 2:
            return v + v
        return v[1:]
    if k == 11:
        return "a" * rng.choice([28, 29, 30, 31, 127, 128, 129, 1023, 1024, 1025, 4096])
    if k == 12:
        return rng.choice(["bc1", "bc1q", "1", "3", "tb1", "bc1p", "BC1QW508D6QEJXTDG4Y5R3ZARVARY0C5XW7KV8F3T4", "a1lqfn3a", "11", "1111111111"])
    if k == 13:
        return rng.bytes(rng.range(1, 40)).decode(proto.L1).replace("\x00", "x").replace("\n", " ").replace("#", "h").replace("\\", "/").replace("'", "q").replace('"', "d")
    if k == 14:
        return "%d" % rng.range(-70000, 70000)
    return rng.bytes(rng.range(1, 80)).hex()


def quote(rng, a):
    """shell-ish quoting understood by kerl's argument splitter"""
    if a == "" or " " in a or rng.chance(10):
        q = rng.choice(["'", '"'])
        if q not in a:
            return q + a + q
    return a


def gen_tf(rng):
    k = rng.below(10)
    if k == 0:
        return ["tf"]
    if k == 1:
        return ["tf", "-h"]
    name = rng.choice(TF_NAMES) if rng.chance(92) else rng.choice(["nosuch", "", "-x", "sha256 ", "SHA256"])
    nargs = rng.weighted([(1, 0), (5, 1), (4, 2), (3, 3), (1, 5)])
    return ["tf", name] + [quote(rng, adversarial_arg(rng)) for _ in range(nargs)]


def gen_exec(rng):
    n = rng.weighted([(1, 0), (4, 1), (4, 2), (3, 4), (1, 12)])
    toks = []
    for _ in range(n):
        k = rng.below(12)
        if k < 4:
            toks.append(rng.choice(list(S.OP.keys())))
        elif k < 6:
            toks.append(rng.choice(list(S.OP.keys()))[3:])
        elif k < 8:
            toks.append(str(rng.choice([0, 1, -1, 5, 16, 17, 1000, -1000, 2147483647, 2147483648, 99999999999])))
        elif k < 10:
            toks.append(rng.bytes(rng.choice([1, 2, 4, 5, 20, 75, 76, 255, 256, 520, 521])).hex())
        else:
            toks.append(quote(rng, adversarial_arg(rng)))
    if rng.chance(8):
        toks += [(t.hex() or "0") if isinstance(t, bytes) else str(t) for t in G.edge_op(rng)]
    return ["exec"] + toks


def pasted_block(rng):
    """what readline hands over after a bracketed paste: several lines, line breaks included, as ONE line"""
    parts = []
    for _ in range(rng.range(2, 4)):
        ln = rng.choice(["step", "rewind", "exec OP_5", "exec OP_1 OP_2", "tf echo 1", "print", "stack", "", "   ", "exec 'OP_3"])
        if rng.chance(50):
            ln += rng.choice(["  # ", "#", " # and more " + "x" * rng.range(0, 300)]) + rng.choice(["", "note", "'quote", "\\"])
        parts.append(ln)
    return rng.choice(["\n", "\n", "\r\n", "\n     "]).join(parts) + rng.choice(["", "\n"])


TAB_LINES = ["tf ", "tf s", "tf sha256 ", "tf sha256 0xa", "tf add 1 ", "help st x", "help ", "exec OP_", "exec OP_1 OP_AD", "exec  ", "st", "", "  tf  x  y ",
             "unknown cmd here", "tf\tx", "exec 'OP_1 OP", "print extra words here"]


def gen_raw(rng):
    k = rng.below(12)
    cmd = rng.choice(["tf echo", "exec", "tf sha256", "tf hex", "exec OP_1"])
    if rng.chance(15):
        return [["raw", rng.choice(TAB_LINES)]]
    if rng.chance(10):
        return [["raw", pasted_block(rng)]]
    if k == 0:
        return [["raw", cmd + " 'open quote"], ["raw", "second line"], ["raw", "closing' done"]]
    if k == 1:
        return [["raw", cmd + ' "open dquote'], ["eof"]]
    if k == 2:
        return [["raw", cmd + " trailing\\"], ["raw", "continued"]]
    if k == 3:
        return [["raw", cmd + " trailing\\"], ["eof"]]
    if k == 4:
        return [["raw", cmd + " 'a"], ["raw", ""], ["raw", "b"], ["eof"]]
    if k == 5:
        return [["raw", "   \t  "]]
    if k == 6:
        return [["raw", cmd + " " + "A" * rng.choice([1023, 1024, 1025, 5000])]]
    if k == 7:
        return [["raw", "step extra args"], ["raw", "rewind 5"], ["raw", "print x"]]
    if k == 8:
        return [["raw", "help " + rng.choice(["s", "st", "x", "help", "", "tf exec"])]]
    if k == 9:
        return [["raw", cmd + " \\\\ \\' \\\" \\n"]]
    if k == 10:
        return [["raw", rng.choice(["\\", "'", '"', "tf '", "exec \"", "tf \\", "'tf'", "tf\techo\t1"])], ["raw", "x'\""]]
    return [["raw", " " + cmd + " 1"], ["raw", "# only a comment"], ["raw", "step # with comment"]]


def gen_sched(rng, n):
    out = []
    for _ in range(n):
        k = rng.weighted([(22, "step"), (12, "rewind"), (6, "print"), (4, "obs"), (14, "exec"), (16, "tf"), (8, "raw"), (4, "blank"), (2, "comment"),
                          (3, "unknown"), (2, "help"), (1, "eof"), (2, "sigint")])
        if k in ("step", "rewind", "print", "blank"):
            out.append([k])
        elif k == "obs":
            out.append([rng.choice(["stack", "altstack", "vfexec"])])
        elif k == "exec":
            out.append(gen_exec(rng))
        elif k == "tf":
            out.append(gen_tf(rng))
        elif k == "raw":
            out += gen_raw(rng)
        elif k == "comment":
            out.append(["comment", " x"])
        elif k == "unknown":
            out.append(["unknown", rng.choice(["frobnicate", "Step", "steps", "quit", "exit", "?", "tf2"])])
        elif k == "help":
            out.append(["help", rng.choice(["", "st", "zz"])])
        elif k == "sigint":
            out.append(["sigint"])
        else:
            out.append(["eof"])
    return out


HIST_CONTENTS = ["", "\n", "\n\n\n", "step", "step\n" * 5, "\x00\n", "\x00", "a\\", "a\\\n", "\\n\\t\\\\\\\"\n", "x" * 1023 + "\n", "x" * 1024 + "\n",
                 "x" * 2047 + "\n", "x" * 5000, "tf echo 'a\\nb'\n", "\\", "\\\n\\\n", "é\xff\n"]


def gen_faults(rng, nlines, tool="btcdeb", interactive=True, dataset=False):
    fs = []
    n = rng.weighted([(25, 0), (45, 1), (20, 2), (10, 3)])
    kinds = []
    if tool == "btcdeb" and interactive:
        kinds += [(4, "HIST_OPEN_A"), (2, "HIST_OPEN_R"), (2, "HIST_OPEN_ALL"), (3, "HIST_WRITE"), (2, "HIST_CLOSE"), (4, "HIST_CONTENT"), (1, "HIST_ABSENT"),
                  (1, "HIST_READ"), (3, "SINK_ERR"), (2, "URANDOM_OPEN"), (2, "URANDOM_SHORT")]
    else:
        kinds += [(3, "SINK_ERR"), (2, "URANDOM_OPEN"), (2, "URANDOM_SHORT")]
    if dataset:
        kinds += [(3, "DATASET_MISSING"), (2, "DATASET_EMPTY"), (3, "DATASET_SHORT"), (3, "DATASET_GARBAGE"), (1, "DATASET_READ"), (1, "DATASET_CHUNK")]
    for _ in range(n):
        k = rng.weighted(kinds)
        f = {"kind": k}
        if k == "HIST_OPEN_A":
            f["at"] = rng.below(max(1, nlines))
            f["errno"] = rng.choice([13, 30, 2, 24, 28])
        elif k in ("HIST_OPEN_R", "HIST_OPEN_ALL"):
            f["errno"] = rng.choice([13, 30, 2, 24])
        elif k == "HIST_WRITE":
            f["after"] = rng.range(0, 60)
        elif k == "HIST_CONTENT":
            f["content"] = rng.choice(HIST_CONTENTS)
        elif k == "HIST_READ":
            f["after"] = rng.range(0, 10)
        elif k == "SINK_ERR":
            f["stream"] = rng.choice([1, 1, 2])
            f["after"] = rng.weighted([(2, 0), (3, rng.range(1, 200)), (3, rng.range(200, 5000))])
            f["errno"] = rng.choice([32, 28, 5])
        elif k == "URANDOM_SHORT":
            f["after"] = rng.choice([0, 1, 16, 31])
        elif k.startswith("DATASET"):
            f["which"] = rng.choice(["-tx", "-in"])
            if k == "DATASET_SHORT":
                f["keep"] = rng.choice([1, 2, 7, 8, 9, 10, 11, 40, 41, 81, 82, 127, 128, 129, 200])
            elif k == "DATASET_GARBAGE":
                f["content"] = rng.choice(["zz", "0", "00", "\n", "0100000000", "01000000" + "ff" * 9, "0200000001" + "00" * 40, "x" * 127, "x" * 128, "x" * 129,
                                           "01000000000100", "010000000001" + "00" * 36 + "00ffffffff00" + "00" * 4])
            elif k == "DATASET_READ":
                f["after"] = rng.range(0, 300)
            elif k == "DATASET_CHUNK":
                f["chunk"] = rng.choice([1, 7, 127, 128])
        fs.append(f)
    return fs


def mutate_spend(rng, scn):
    """structure-aware damage to the transactions of a spend session (still well-formed hex): wrong output index,
    no inputs, no outputs, an extra input, swapped transactions, a witness dropped or added"""
    from . import tx as T
    sp = scn.get("spend")
    if not sp:
        return
    if "dataset" in sp:
        fl = session.dataset_files(sp["dataset"])
        try:
            sp = {"tx": fl[0]["content"].strip(), "txin": fl[1]["content"].strip()}
        except Exception:
            return
    try:
        tx = T.Tx.parse(bytes.fromhex(sp["tx"]))
        txin = T.Tx.parse(bytes.fromhex(sp["txin"]))
    except ValueError:
        return
    k = rng.below(10)
    if k == 0 and tx.vin:
        tx.vin[0].prev_n = rng.choice([len(txin.vout), len(txin.vout) + 1, 255, 0xffffffff])
    elif k == 1:
        tx.vin = []
    elif k == 2:
        txin.vout = []
    elif k == 3:
        tx.vout = []
    elif k == 4:
        tx.vin.append(T.TxIn(rng.bytes(32), 0, b"", 0xffffffff, [b"\x01"] if tx.has_witness() else None))
    elif k == 5:
        tx, txin = txin, tx
    elif k == 6 and tx.vin:
        tx.vin[0].witness = []
    elif k == 7 and tx.vin:
        tx.vin[0].witness = (tx.vin[0].witness or []) + [rng.bytes(rng.choice([0, 1, 32, 33, 65]))]
    elif k == 8 and tx.vin and tx.vin[0].witness:
        i = rng.below(len(tx.vin[0].witness))
        tx.vin[0].witness[i] = tx.vin[0].witness[i][:rng.below(len(tx.vin[0].witness[i]) + 1)]
    else:
        txin.vout = txin.vout + txin.vout
    new = {"tx": tx.ser().hex(), "txin": txin.ser().hex()}
    if rng.chance(25):
        new["select"] = rng.choice([0, 1, 2, 5, -1])
    if rng.chance(15):
        new["tx"] = rng.choice(["0.001:", "1,2:", "0.5,0.5,0.5:", "x:", ":"]) + new["tx"]
    scn["spend"] = new
    scn["script"] = None
    scn["mutated_spend"] = True


def gen_btcdeb_interactive(rng):
    scn = workloads.session_scenario(rng, purpose="swarm")
    scn["tool"] = "btcdeb"
    scn["observe"] = False
    if scn.get("spend") and rng.chance(25):
        mutate_spend(rng, scn)
    if scn.get("script") is not None and rng.chance(40):
        toks = rng.weighted([(4, G.failing_op(rng)), (4, G.throwing_op(rng)), (3, G.edge_op(rng))])
        workloads.inject_ops(scn, rng, toks)
        if toks and isinstance(toks[-1], str) and toks[-1] in S.DISABLED and "-z" not in scn["opts"] and rng.chance(75):
            scn["opts"] = list(scn["opts"]) + ["-z"]
    n = rng.weighted([(3, rng.range(1, 6)), (5, rng.range(6, 25)), (2, rng.range(25, 60))])
    scn["sched"] = gen_sched(rng, n)
    scn["faults"] = gen_faults(rng, len(scn["sched"]), dataset=bool(scn.get("spend")))
    if rng.chance(30):
        # the user presses TAB while typing some of the lines (cursor anywhere in the line)
        scn["tabs"] = {}
        for li in range(len(scn["sched"])):
            if rng.chance(25):
                if scn["sched"][li][0] == "sigint":
                    continue
                ln = session.render_item(scn["sched"][li]) or ""
                scn["tabs"][str(li)] = [rng.weighted([(3, len(ln)), (2, rng.below(len(ln) + 1)), (1, 0)]) for _ in range(rng.range(1, 2))]
    if rng.chance(20):
        scn["winsize"] = [rng.choice([0, 1, 2, 5, 7, 9, 10, 12, 20, 40, 79, 80, 132, 1000, 65535]), rng.choice([0, 1, 24, 50])]
    if rng.chance(12):
        # crash / restart: the next session loads whatever this one managed to write to the history file,
        # cut at an arbitrary byte (torn last write) - only the durable bytes survive
        scn["restart"] = {"cut": rng.weighted([(3, -1), (5, rng.below(400)), (2, rng.below(30))]), "sched": gen_sched(rng, rng.range(1, 6))}
    if rng.chance(8):
        # argument / option mutations as workload
        scn["extra_argv"] = [rng.choice(["--select=5", "--select=-1", "--select=999999999999", "--tx=zz", "--txin=00", "--tx=0.1:00", "--tx=1,2", "--tx=:",
                                         "--modify-flags=+NOSUCH", "--modify-flags=P2SH", "--modify-flags=" + "-P2SH," * 40, "--modify-flags=+" + "A" * rng.choice([126, 127, 128, 129, 300]),
                                         "--modify-flags=-P2SH,+" + "B" * 200, "--modify-flags=", "--modify-flags=,", "--modify-flags=+", "--pretend-valid=a", "--pretend-valid=:",
                                         "--pretend-valid=a:b:c", "--dataset", "--dataset=nosuch", "--debug=", "--debug=,,", "-X", "--nosuch", "-"])]
    return scn


def gen_tap(rng):
    argv = []
    if rng.chance(15):
        argv.append(rng.choice(["-q", "--version", "-h", "--addrprefix=tb", "-p", "--addrprefix=", "--addrprefix=TB", "--addrprefix=b1", "--addrprefix=" + "x" * 90,
                                "--sig=zz", "--sig=" + "11" * 64, "--privkey=" + "11" * 32]))
    key = rng.weighted([(6, GOOD_XONLY), (1, "5be2a9a6cbdb0e1eebc2c2c1ba6a1f7d2b4b1f3c3a1a5d0c6f5e8f1e2d3c4b5a"), (1, adversarial_arg(rng))])
    nscripts = rng.weighted([(5, rng.range(1, 4)), (2, rng.range(5, 9)), (1, 0), (1, 1025)])
    argv.append(key)
    argv.append(str(nscripts) if rng.chance(92) else rng.choice(["-1", "x", "99999999999999999999", ""]))
    for _ in range(min(nscripts, 9)):
        argv.append(rng.choice(["[OP_1]", "[OP_DUP OP_DROP OP_1]", "[%s OP_CHECKSIG]" % GOOD_XONLY, "0x51", "51", "[", "[OP_NOSUCH]", "", "OP_1",
                                "[" + " ".join(["OP_NOP"] * rng.range(1, 30)) + "]"]))
    if rng.chance(40):
        argv.append(str(rng.choice([0, 0, 1, 2, 8, -1, 1024, 99])))
        for _ in range(rng.below(3)):
            argv.append(rng.choice(["%SIG%", "0x", "01", adversarial_arg(rng)]))
    scn = {"tool": "tap", "argv": argv, "sched": [], "tty": [rng.below(2), rng.below(2)], "env": {}, "stack": []}
    if rng.chance(20):
        scn["env"][rng.choice(["DEBUG_SET_PIPE_IN", "DEBUG_SET_PIPE_OUT", "DEBUG_SIGHASH", "DEBUG_TAPROOT"])] = rng.choice(["1", "0", ""])
    if rng.chance(15):
        fl = session.dataset_files(rng.choice(["p2tr", "p2ts"]))
        txh, inh = fl[0]["content"].strip(), fl[1]["content"].strip()
        argv[0:0] = ["--tx=" + (txh if rng.chance(80) else txh[:rng.below(len(txh))]), "--txin=" + (inh if rng.chance(80) else inh[:rng.below(len(inh))])]
    scn["faults"] = gen_faults(rng, 0, tool="tap", interactive=False)
    return scn


def gen_tap2(rng):
    """two-stage tap scenario: the first run computes the tweaked output key for an internal key and a script list;
    the harness then builds a funding transaction paying to that key (at a seeded output index) and a spending
    transaction, and runs tap again on them in key-path or script-path mode"""
    from . import spend
    ik = rng.below(len(spend.KEYS))
    n = rng.range(1, 5)
    scripts = []
    for _ in range(n):
        scripts.append(rng.choice(["[OP_1]", "[OP_DUP OP_DROP OP_1]", "[%s OP_CHECKSIG]" % spend.pub(rng.below(len(spend.KEYS)))[1].hex(),
                                   "[OP_2 OP_EQUAL]", "[OP_SHA256 %s OP_EQUAL]" % rng.bytes(32).hex()]))
    scn = {"tool": "tap", "tap2": True, "ikey": spend.pub(ik)[1].hex(), "scripts": scripts, "sched": [], "stack": [], "env": {},
           "vout": rng.weighted([(4, 0), (3, 1), (2, 2)]), "extra_outputs": rng.range(0, 2),
           "mode": rng.choice(["keypath", "script", "script"]), "spend_index": rng.below(n), "spend_args": [rng.choice(["%SIG%", "02", "0x"]) for _ in range(rng.below(3))],
           "sig": rng.choice([None, None, "11" * 64, "22" * 65]), "tty2": [rng.below(2), rng.below(2)], "prefix": rng.choice([None, None, "tb", "bcrt", "TB", ""]),
           "extra_inputs": rng.weighted([(8, 0), (2, 1)])}
    scn["faults"] = gen_faults(rng, 0, tool="tap", interactive=False)
    return scn


def run_tap2(ctx, scn, ev):
    from . import spend, tx as T
    import re as _re
    base = [scn["ikey"], str(len(scn["scripts"]))] + list(scn["scripts"])
    w1 = proto.new_world("tap", base, tty=(True, True))
    w1["files"] = [{"path": ".btcdeb_history", "exists": True, "content": ""}]
    r1 = ctx.run(w1)
    ev.hashes.append(r1.hash())
    judge(ev, r1, scn)
    m = _re.search(r"Tweaked pubkey = ([0-9a-f]{64})", r1.stderr().decode(proto.L1))
    if not m or not r1.normal():
        ev.counters["tap2_stage1_no_key"] += 1
        return r1
    q = bytes.fromhex(m.group(1))
    outs = [T.TxOut(5000 + 7 * k, bytes([0x00, 0x14]) + bytes([0x30 + k]) * 20) for k in range(max(scn["extra_outputs"], scn["vout"]))]
    outs.insert(min(scn["vout"], len(outs)), T.TxOut(100000, bytes([0x51, 0x20]) + q))
    fund = T.Tx(2, [T.TxIn(b"\x77" * 32, 0, b"\x51", 0xfffffffe)], outs, 0)
    vout = min(scn["vout"], len(outs) - 1)
    tx = T.Tx(2, [T.TxIn(fund.txid(), vout, b"", 0xffffffff)], [T.TxOut(90000, bytes([0x00, 0x14]) + b"\x42" * 20)], 0)
    for j in range(scn.get("extra_inputs", 0)):
        tx.vin.append(T.TxIn(bytes([0x55 + j]) * 32, 1, b"", 0xffffffff))
    argv = ["--tx=" + tx.ser().hex(), "--txin=" + fund.ser().hex()]
    if scn.get("sig"):
        argv.append("--sig=" + scn["sig"])
    if scn.get("prefix"):
        argv.append("--addrprefix=" + scn["prefix"])
    argv += base
    if scn["mode"] == "script":
        argv += [str(scn["spend_index"])] + list(scn["spend_args"])
    w2 = proto.new_world("tap", argv, tty=tuple(scn["tty2"]))
    w2["files"] = [{"path": ".btcdeb_history", "exists": True, "content": ""}]
    session.apply_faults(w2, scn.get("faults", []))
    r2 = ctx.run(w2)
    ev.hashes.append(r2.hash())
    judge(ev, r2, scn)
    ev.counters["probe:tap_spend_stage_reached"] += 1
    if b"Pubkey matches" in r2.stderr() or r2.exit_code() == 0:
        ev.counters["probe:tap_spend_key_matched"] += 1
    return r2


def gen_btcc(rng):
    n = rng.weighted([(1, 0), (6, rng.range(1, 6)), (2, rng.range(7, 30))])
    argv = []
    for _ in range(n):
        k = rng.below(6)
        if k == 0:
            argv.append(rng.choice(list(S.OP.keys())))
        elif k == 1:
            argv.append(adversarial_arg(rng))
        elif k == 2:
            argv.append(rng.choice(["[", "]", "[OP_1", "OP_1]", "[[", "[]", "[ ]", "[a", "b]"]))
        elif k == 3:
            argv.append(str(rng.range(-300, 70000)))
        else:
            argv.append(rng.bytes(rng.choice(BOUNDARY)).hex())
    return {"tool": "btcc", "argv": argv, "sched": [], "tty": [1, rng.below(2)], "env": {}, "stack": [], "faults": gen_faults(rng, 0, tool="btcc", interactive=False)}


def gen_btcdeb_noninteractive(rng):
    scn = workloads.session_scenario(rng, purpose="swarm")
    scn["tool"] = "btcdeb"
    scn["sched"] = []
    if scn.get("spend") and rng.chance(25):
        mutate_spend(rng, scn)
    scn["tty"] = rng.choice([[0, 1], [1, 0], [0, 0]])
    scn["fdkind"] = rng.choice("ppfc") + rng.choice("ppfcs")
    if scn["tty"][0] == 0:
        scn["script_on_stdin"] = True
        txt = "0x" + (scn.get("script") or "")
        data = rng.weighted([(3, txt + "\n"), (1, txt), (1, ""), (1, "\n"), (1, txt + "\r\n"), (1, "x" * rng.choice([1022, 1023, 1024, 1025, 3000]) + "\n"),
                             (1, "[" * 600), (1, "[OP_1 " * 100), (1, adversarial_arg(rng) + "\n"), (1, "[" + adversarial_arg(rng) + "]\n"), (1, txt[:rng.below(len(txt) + 1)] + "\n")])
        scn["faults"] = [{"kind": "STDIN", "data": data, "chunks": [rng.range(1, 9) for _ in range(rng.below(6))], "end_errno": rng.choice([0, 0, 0, 5])}]
    else:
        scn["faults"] = []
    scn["faults"] += gen_faults(rng, 0, tool="btcdeb", interactive=False, dataset=bool(scn.get("spend")))
    return scn


VALGRIND_EVERY = {"quick": 1500, "thorough": 150}


def gen(rng, tier, idx):
    scn = _gen(rng, tier, idx)
    if idx % VALGRIND_EVERY.get(tier, 1500) == 7:
        # a sample of the plans is repeated under valgrind memcheck (optimised build) for uninitialised reads
        scn["valgrind"] = True
    return scn


def _gen(rng, tier, idx):
    if idx < len(ENUM):
        return enum_scenario(idx)
    k = rng.weighted([(64, "interactive"), (12, "noninteractive"), (9, "tap"), (5, "tap2"), (10, "btcc")])
    if k == "interactive":
        return gen_btcdeb_interactive(rng)
    if k == "noninteractive":
        return gen_btcdeb_noninteractive(rng)
    if k == "tap":
        return gen_tap(rng)
    if k == "tap2":
        return gen_tap2(rng)
    return gen_btcc(rng)


# ---- complete enumeration: fault kind x site x position over a short session
ENUM_SESSION = [["step"], ["tf", "sha256", "0x01"], ["exec", "OP_1"], ["rewind"], ["raw", "tf echo 'a"], ["raw", "b'"], ["print"], ["step"]]


def _enum():
    out = []
    n = len(ENUM_SESSION)
    for pos in range(n):
        for errno in (13, 28):
            out.append([{"kind": "HIST_OPEN_A", "at": pos, "errno": errno}])
        out.append([{"kind": "EOF_AT", "at": pos}])
    for errno in (13, 2, 24):
        out.append([{"kind": "HIST_OPEN_R", "errno": errno}])
        out.append([{"kind": "HIST_OPEN_ALL", "errno": errno}])
    for after in (0, 1, 4, 5, 20):
        out.append([{"kind": "HIST_WRITE", "after": after}])
    out.append([{"kind": "HIST_CLOSE", "errno": 5}])
    out.append([{"kind": "HIST_ABSENT"}])
    for c in HIST_CONTENTS:
        out.append([{"kind": "HIST_CONTENT", "content": c}])
    for after in (0, 1, 3):
        out.append([{"kind": "HIST_READ", "after": after}])
    for stream in (1, 2):
        for after in (0, 1, 30, 100, 400, 1000):
            out.append([{"kind": "SINK_ERR", "stream": stream, "after": after, "errno": 32}])
    out.append([{"kind": "URANDOM_OPEN", "errno": 2}])
    for after in (0, 1, 31):
        out.append([{"kind": "URANDOM_SHORT", "after": after}])
    for which in ("-tx", "-in"):
        out.append([{"kind": "DATASET_MISSING", "which": which}])
        out.append([{"kind": "DATASET_EMPTY", "which": which}])
        for keep in (1, 9, 127, 128, 129):
            out.append([{"kind": "DATASET_SHORT", "which": which, "keep": keep}])
        out.append([{"kind": "DATASET_GARBAGE", "which": which, "content": "zz"}])
        out.append([{"kind": "DATASET_READ", "which": which, "after": 10}])
        out.append([{"kind": "DATASET_CHUNK", "which": which, "chunk": 1}])
    return out


ENUM = _enum()


def enum_scenario(i):
    faults = ENUM[i]
    sched = [list(x) for x in ENUM_SESSION]
    scn = {"tool": "btcdeb", "enum": i, "opts": [], "stack": ["05"], "tty": [1, 1], "env": {}, "observe": False, "spend": None,
           "script": S.asm([1, "OP_IF", 2, "OP_ADD", "OP_ENDIF", "OP_DUP", "OP_TOALTSTACK"]).hex()}
    real = []
    for f in faults:
        if f["kind"] == "EOF_AT":
            sched = sched[:f["at"] + 1] + [["eof"]] + sched[f["at"] + 1:]
        else:
            real.append(f)
        if f["kind"].startswith("DATASET"):
            scn["spend"] = {"dataset": "p2pkh"}
            scn["script"] = None
            scn["stack"] = []
    scn["sched"] = sched
    scn["faults"] = real
    return scn


def shrink_extra(scn, still, budget):
    if scn.get("tool", "btcdeb") == "btcdeb" and scn.get("script"):
        return workloads.shrink_script(scn, still, budget)
    return scn


def world_of(scn):
    tool = scn.get("tool", "btcdeb")
    if tool == "btcdeb":
        w = session.build_world(scn, observe=scn.get("observe", False))
        if scn.get("tabs"):
            # no observers in C15 sessions: line index == schedule index, minus the Ctrl-C items before it
            shift, m = 0, {}
            for li, it in enumerate(scn.get("sched", [])):
                if it[0] == "sigint":
                    shift += 1
                elif str(li) in scn["tabs"]:
                    m[str(li - shift)] = scn["tabs"][str(li)]
            w["tabs"] = m
        if scn.get("winsize"):
            w["winsize"] = list(scn["winsize"])
        if scn.get("script_on_stdin") and not any(f["kind"] == "STDIN" for f in scn.get("faults", [])):
            pass
        return w
    w = proto.new_world(tool, scn.get("argv", []), tty=tuple(scn.get("tty", [1, 1])))
    if scn.get("fdkind"):
        w["fdkind"] = scn["fdkind"]
    w["env"] = dict(scn.get("env", {}))
    w["files"] = [{"path": ".btcdeb_history", "exists": True, "content": ""}]
    session.apply_faults(w, scn.get("faults", []))
    return w


def last_command(run):
    line = None
    for s in run.segs[1:]:
        if s.line is not None:
            line = s.line
    if line is None:
        return "startup"
    words = line.strip().split()
    if not words:
        return "blank"
    if words[0] == "tf" and len(words) > 1:
        return "tf:" + words[1][:24]
    if words[0] in ("step", "rewind", "exec", "print", "stack", "altstack", "vfexec", "help", "tf"):
        return words[0]
    return "other"


def judge(ev, run, scn, flavour="asan"):
    kind, detail = run.classify()
    tool = scn.get("tool", "btcdeb")
    ev.counters["term:" + kind] += 1
    if kind == "interrupted":
        return      # the user's Ctrl-C ended the session (no handler installed): a legitimate end
    if kind in ("return", "exit"):
        # bounded liveness: after the user's EOF at the main prompt nothing more is asked
        segs = run.segs[1:]
        for i, s in enumerate(segs):
            if s.eof and s.prompt == "btcdeb> " and i != len(segs) - 1:
                ev.add(PROP, "prompt-after-eof", "main", "the tool asked for input again after EOF at the main prompt")
                break
        return
    if kind == "sanitizer":
        ev.add(PROP, "memory-error", "%s:%s" % (tool, detail), "%s: sanitizer report %s after `%s`" % (tool, detail, last_command(run)))
    elif kind == "terminate":
        ev.add(PROP, "uncaught-exception", "%s:%s@%s" % (tool, detail.split(":")[0], last_command(run)), "%s: uncaught exception (%s) after `%s`" % (tool, detail[:100], last_command(run)))
    elif kind == "assert":
        ev.add(PROP, "failed-assertion", "%s:%s" % (tool, detail.split(": ")[0].replace(proto.REPO_ROOT + "/", "").split(":")[0] + ":" + (detail.split(": ")[1] if ": " in detail else "")[:40]), "%s: %s" % (tool, detail[:160]))
    elif kind == "abort":
        ev.add(PROP, "abort", "%s@%s" % (tool, last_command(run)), "%s called abort() after `%s`" % (tool, last_command(run)))
    elif kind == "signal":
        ev.add(PROP, "signal", "%s:%s@%s" % (tool, detail, last_command(run)), "%s killed by %s after `%s`" % (tool, detail, last_command(run)))
    elif kind == "hang":
        ev.add(PROP, "hang", "%s@%s" % (tool, last_command(run)), "%s did not terminate (three attempts) after `%s`" % (tool, last_command(run)))
    elif kind == "cap":
        ev.add(PROP, "prompt-after-eof", "endless", "%s kept prompting after the user's input ended" % tool)
    elif kind == "overflow":
        ev.counters["inconclusive_overflow"] += 1
    else:
        ev.add(PROP, "unknown-termination", tool, "%s: %s" % (tool, detail[:120]))


def evaluate(ctx, scn):
    ev = Eval()
    if scn.get("tap2"):
        run = run_tap2(ctx, scn, ev)
        w = None
    else:
        w = world_of(scn)
        run = ctx.run(w)
        ev.hashes.append(run.hash())
        judge(ev, run, scn)
    fired = []
    for s in run.segs:
        for c in s.seam:
            head = c.split()[0]
            if head in ("sinkfail", "writefail", "closefail", "readfail", "stdinerr", "stdineof"):
                fired.append(head)
            elif head == "fopen" and " fail " in c:
                fired.append("fopenfail:" + c.split()[1].split("/")[-1][:20])
            elif head == "urandom":
                fired.append("urandom:" + c.split()[1])
    for f in fired:
        ev.counters["fault:fired_" + f] += 1
    for f in scn.get("faults", []):
        ev.counters["fault:configured_" + f["kind"]] += 1
    for s in run.segs[1:]:
        if s.eof and s.prompt and s.prompt != "btcdeb> ":
            ev.counters["probe:eof_at_continuation_prompt"] += 1
        if s.eof and s.prompt == "btcdeb> ":
            ev.counters["probe:eof_at_main_prompt"] += 1
    if scn.get("restart") and scn.get("tool", "btcdeb") == "btcdeb":
        hist = "".join(f.get("content", "") for f in scn.get("faults", []) if f["kind"] == "HIST_CONTENT")
        durable = hist + "".join(d.decode(proto.L1) for (pth, d) in run.written if pth == ".btcdeb_history")
        cut = scn["restart"]["cut"]
        if cut >= 0:
            durable = durable[:max(0, len(durable) - cut)] if cut < len(durable) else ""
        s2 = dict(scn)
        s2["sched"] = scn["restart"]["sched"]
        s2["faults"] = [f for f in scn.get("faults", []) if not f["kind"].startswith("HIST")] + [{"kind": "HIST_CONTENT", "content": durable}]
        w2 = world_of(s2)
        r2 = ctx.run(w2)
        ev.hashes.append(r2.hash())
        before = len(ev.violations)
        judge(ev, r2, scn)
        for v in ev.violations[before:]:
            v.message = "[session restarted on the history file the previous session left, %d bytes] %s" % (len(durable), v.message)
        ev.counters["probe:restart_with_surviving_history"] += 1
        if durable and not durable.endswith("\n"):
            ev.counters["probe:restart_on_torn_last_line"] += 1
        ev.counters["fault:fired_crash_restart"] += 1
    nlines = sum(1 for s in run.segs if s.line is not None)
    ev.nontrivial = nlines >= 3 or bool(fired)
    kinds = tuple((s.line or "").split(" ")[0][:12] for s in run.segs[1:])
    ev.cov = [(scn.get("tool", "btcdeb"), kinds, tuple(sorted(set(fired))), run.classify()[0])]
    if scn.get("valgrind") and w is not None:
        rv = ctx.run(w, flavour="valgrind")
        ev.hashes.append(rv.hash())
        ev.counters["valgrind_runs"] += 1
        if rv.wait == ("exited", 76) or ("== " in rv.valgrind and ("Invalid " in rv.valgrind or "uninitialised" in rv.valgrind or "Mismatched" in rv.valgrind)):
            site = proto.valgrind_site(rv.valgrind)
            ev.add(PROP, "valgrind-memcheck", "%s:%s" % (scn.get("tool", "btcdeb"), site), "%s under valgrind (-O2 build): %s after `%s`" % (scn.get("tool", "btcdeb"), site, last_command(rv)))
        else:
            ev2 = Eval()
            judge(ev2, rv, scn, "valgrind")
            for v in ev2.violations:
                ev.add(v.prop, v.clause, "valgrind:" + v.site, "[valgrind, -O2 build] " + v.message)
    if "plain" in ctx.flavours and ctx.default_flavour != "plain" and not scn.get("valgrind") and w is not None:
        # thorough tier: the same plan in the optimised build; a divergence is a lead, only a crash is a violation
        r2 = ctx.run(w, flavour="plain")
        ev.hashes.append(r2.hash())
        ev2 = Eval()
        judge(ev2, r2, scn, "plain")
        for v in ev2.violations:
            ev.add(v.prop, v.clause, "plain:" + v.site, "[-O2 build] " + v.message)
        if r2.classify()[0] != run.classify()[0]:
            ev.counters["flavour_divergence"] += 1
    return ev


def extra_evidence(counters):
    return {"enumerated_fault_plans": len(ENUM), "enumeration": "fault kind x site x position over the session %r, cases 0..%d of every run" % (ENUM_SESSION, len(ENUM) - 1),
            "exhaustive_subspace": True}
