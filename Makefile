# btcsim - deterministic simulation of btcdeb (see DESIGN.md)
.PHONY: setup selftest-determinism selftest-sensitivity clean

setup:
	python3 -m btcsim.build asan plain

selftest-determinism:
	python3 -m btcsim.selftest determinism

selftest-sensitivity:
	python3 -m btcsim.selftest sensitivity

clean:
	rm -rf build replays
